------------------------------- MODULE Summaries -------------------------------
(* Property C13: benchmath summaries and comparisons honour their statistical     *)
(* contracts (benchmath/sample.go, anone.go, aexact.go, anormal.go).              *)
(*                                                                                 *)
(* The module is function-style for the arithmetic clauses (every input is an      *)
(* initial state `inp`, the invariants compare a declarative contract taken from   *)
(* the property statement with an operational transcription of what the code      *)
(* does) and stateful for the one piece of shared state the code has, the         *)
(* process-wide medianCache (actions Call/Store of concurrent callers).            *)
(*                                                                                 *)
(* Kinds of input                                                                  *)
(*   none    (n, c)      assume-nothing summary of a distinct-valued sample of     *)
(*                       size n <= MaxN at confidence level c = <<p, q>>:          *)
(*                       order-statistic interval, exact binomial coverage,        *)
(*                       minimal sufficient n named in the warning                 *)
(*   sample  xs          small integer multiset: exact model (mode, warning iff     *)
(*                       values differ) and normal model (mean, symmetric interval)*)
(*   cmp     pat         rank pattern of two samples (per level of the pooled      *)
(*                       order: how many values of sample 1 / sample 2): P of the  *)
(*                       assume-nothing comparison                                  *)
(*   alpha   (model, a)  which threshold a comparison carries                      *)
(*   delta   (P, a, old, new)    Comparison.FormatDelta decision table              *)
(*   range   (c, lo, hi)         Summary.PctRangeString decision table              *)
(*   cache               medianCache under every interleaving of lookups           *)
(*                                                                                 *)
(* All arithmetic is exact: counts are integers below 2^31 (n <= 30 keeps 2^n and  *)
(* binomials in range), probabilities are <<count, total>>, other numbers are      *)
(* normalised rationals <<num, den>>.  The t quantile of the normal model and the  *)
(* normal approximations used above 30 / 50 / 25 samples are numeric and outside   *)
(* the model.                                                                      *)
(*                                                                                 *)
(* Deviations found in the code as shipped (FALSE = what the property says,        *)
(* TRUE in Summaries_asbuilt.cfg = what the code does):                            *)
(*   NormalCompareNoAlpha   assumeNormal.Compare leaves Comparison.Alpha zero, so   *)
(*                          FormatDelta prints "~" for every p > 0                  *)
(*   TwoSidedFromSmallerU   the third-party U-test doubles the lower tail of the    *)
(*                          distribution of U1 at min(U1, U2); with ties and        *)
(*                          n1 # n2 that distribution is not symmetric, so the      *)
(*                          result depends on the order of the samples and can      *)
(*                          exceed 1 ({2} vs {1,2}: 2/3, swapped 4/3)              *)
(*   UTestTruncDiv          its tied CDF for two distinct values divides with       *)
(*                          truncation toward zero, so below the smallest           *)
(*                          attainable U it is C(t1, n1)/C(N, n1) instead of 0      *)
(*                          ({2} vs {1,1}: 4/3).  Only meaningful together with     *)
(*                          TwoSidedFromSmallerU.                                   *)
(*   PctRangeSigned         PctRangeString takes max(hi/c - 1, 1 - lo/c) without    *)
(*                          absolute values: for a negative centre it prints the    *)
(*                          smaller deviation with a minus sign                     *)
EXTENDS Integers, Sequences, FiniteSets, TLC

CONSTANTS
  MaxN,        \* largest sample size with exact binomial arithmetic (<= 30)
  ConfGrid,    \* confidence levels <<p, q>>, 0 < p < q
  AlphaGrid,   \* thresholds <<p, q>>, 0 <= p <= q
  PGrid,       \* p-values for the rendering table
  MaxPool,     \* n1 + n2 bound of the comparison patterns
  SampleVals,  \* values of the small samples (exact / normal model)
  MaxSample,   \* their largest size
  DeltaOld,    \* old centres of the delta table (rationals)
  DeltaK,      \* relative differences in 1/10000 of the delta table
  RangeVals,   \* integers for the range table
  CacheKeys,   \* <<n, c>> pairs looked up in the cache model
  MaxCalls,    \* bound on the number of lookups
  NProcs,      \* concurrent callers
  NormalCompareNoAlpha, TwoSidedFromSmallerU, UTestTruncDiv, PctRangeSigned

ASSUME MaxN \in 1..30

\* ---------------------------------------------------------------- grids (chosen in the cfg)
ConfQuick    == {<<1,100>>, <<1,4>>, <<1,2>>, <<3,4>>, <<7,8>>, <<9,10>>, <<19,20>>, <<99,100>>, <<999,1000>>}
ConfThorough == ConfQuick \cup {<<1,1000>>, <<1,3>>, <<2,3>>, <<4,5>>, <<15,16>>, <<31,32>>, <<199,200>>,
                                <<511,512>>, <<997,1000>>, <<4095,4096>>}
AlphaAll     == {<<0,1>>, <<1,1000>>, <<1,100>>, <<1,20>>, <<1,10>>, <<1,2>>, <<1,1>>}
\* incl. p-values that differ from a threshold of AlphaAll only in the fourth decimal
\* (0.0504 / 0.0496 around 1/20, 0.1004 around 1/10, 0.5004 around 1/2, 0.0104 around 1/100)
PAll         == {<<0,1>>, <<1,1000>>, <<1,20>>, <<1,10>>, <<1,2>>, <<1,1>>,
                 <<63,1250>>, <<62,1250>>, <<251,2500>>, <<1251,2500>>, <<13,1250>>}
OldQuick     == {<<0,1>>, <<1,1>>, <<4,1>>, <<5,1>>, <<-2,1>>, <<7,2>>}
OldThorough  == OldQuick \cup {<<10,1>>, <<-5,1>>, <<1,2>>, <<-7,2>>, <<25,1>>, <<8,1>>}
KQuick       == {-10000, -5000, -1234, -1, 0, 1, 50, 2857, 10000, 28571}
KThorough    == KQuick \cup {-9999, -100, -99, 99, 100, 101, 999, 12345, 100000}
ValsDefault  == {-2, -1, 0, 1, 2, 3}
RangeQuick   == {-8, -4, -3, -2, -1, 0, 1, 2, 3, 4, 8}
RangeThorough == RangeQuick \cup {-9, -5, 5, 9, 16}
KeysDefault  == {<<5, <<1,2>>>>, <<5, <<19,20>>>>, <<6, <<19,20>>>>}

\* ---------------------------------------------------------------- integers and rationals
Min(a, b) == IF a <= b THEN a ELSE b
Max(a, b) == IF a >= b THEN a ELSE b
Abs(a) == IF a < 0 THEN -a ELSE a
Sgn(a) == IF a < 0 THEN -1 ELSE IF a > 0 THEN 1 ELSE 0

RECURSIVE Gcd(_, _)
Gcd(a, b) == IF b = 0 THEN a ELSE Gcd(b, a % b)

\* sign of a/b - p/q for a, p >= 0 and b, q > 0, without products (no overflow below 2^31)
RECURSIVE CmpFrac(_, _, _, _)
CmpFrac(a, b, p, q) ==
  LET ia == a \div b  ip == p \div q  ra == a % b  rp == p % q IN
  IF ia # ip THEN (IF ia > ip THEN 1 ELSE -1)
  ELSE IF ra = 0 /\ rp = 0 THEN 0
  ELSE IF ra = 0 THEN -1
  ELSE IF rp = 0 THEN 1
  ELSE -CmpFrac(b, ra, q, rp)

\* normalised rationals <<num, den>>, den > 0, gcd = 1 (small numbers only)
RNorm(n, d) == LET s == IF d < 0 THEN -1 ELSE 1
                   g == Gcd(Abs(n), Abs(d)) IN
               IF n = 0 THEN <<0, 1>> ELSE <<(s * n) \div g, (s * d) \div g>>
RInt(k)     == <<k, 1>>
RNeg(x)     == <<-x[1], x[2]>>
RAdd(x, y)  == LET g == Gcd(x[2], y[2]) IN RNorm(x[1] * (y[2] \div g) + y[1] * (x[2] \div g), (x[2] \div g) * y[2])
RSub(x, y)  == RAdd(x, RNeg(y))
RMul(x, y)  == LET a == RNorm(x[1], y[2])  b == RNorm(y[1], x[2]) IN RNorm(a[1] * b[1], a[2] * b[2])
RDiv(x, y)  == RMul(x, IF y[1] < 0 THEN <<-y[2], -y[1]>> ELSE <<y[2], y[1]>>)     \* y # 0
RSgn(x)     == Sgn(x[1])
RAbs(x)     == <<Abs(x[1]), x[2]>>
RLe(x, y)   == RSgn(RSub(x, y)) <= 0
RLt(x, y)   == RSgn(RSub(x, y)) < 0
RMax(x, y)  == IF RLe(x, y) THEN y ELSE x

\* rounding a non-negative rational to the nearest integer; exact halves are outside
\* the checked domain (the property does not fix a rounding mode)
RIsHalf(x)  == (2 * x[1]) % x[2] = 0 /\ ((2 * x[1]) \div x[2]) % 2 = 1
RRound(x)   == (2 * x[1] + x[2]) \div (2 * x[2])

\* ---------------------------------------------------------------- text (sequences of one-character strings)
DigitCh(d) == <<"0", "1", "2", "3", "4", "5", "6", "7", "8", "9">>[d + 1]
RECURSIVE Digits(_)
Digits(k) == IF k < 10 THEN <<DigitCh(k)>> ELSE Append(Digits(k \div 10), DigitCh(k % 10))
\* "INF" stands for the infinity sign (one rune; the harness maps it)
INF == <<"INF">>

\* ---------------------------------------------------------------- binomials
PascalUpTo[n \in 0..MaxN] ==
  IF n = 0 THEN << <<1>> >>
  ELSE LET prev == PascalUpTo[n - 1]
           p    == prev[n] IN
       Append(prev, [k \in 1..(n + 1) |-> (IF k > 1 THEN p[k - 1] ELSE 0) + (IF k <= n THEN p[k] ELSE 0)])
Pascal == PascalUpTo[MaxN]
Binom(n, k) == IF k < 0 \/ k > n THEN 0 ELSE Pascal[n + 1][k + 1]

\* CumTab[n][j + 1] = number of k < j with weight C(n, k), j = 0..n+1; the last entry is 2^n
CumRow(n) == LET f[j \in 0..(n + 1)] == IF j = 0 THEN 0 ELSE f[j - 1] + Binom(n, j - 1) IN
             [j \in 1..(n + 2) |-> f[j - 1]]
CumTab == [n \in 1..MaxN |-> CumRow(n)]
Pow2(n) == CumTab[n][n + 2]

\* ================================================================ (1) assume-nothing summary
(* For a sample X(1) < ... < X(n) from a continuous population with median m,     *)
(* the number of sample values below m is Binomial(n, 1/2), so                     *)
(*    Pr[ X(l) <= m < X(r) ] = sum_{k=l}^{r-1} C(n, k) / 2^n                        *)
(* with X(0) = -infinity and X(n+1) = +infinity.  Cov is the numerator.            *)
Cov(n, l, r) == CumTab[n][r + 1] - CumTab[n][l + 1]

\* the sample median is (X(MedLo) + X(MedHi)) / 2
MedLo(n) == (n + 1) \div 2
MedHi(n) == (n + 2) \div 2

\* coverage l..r reaches the requested level c
Reaches(n, l, r, c) == CmpFrac(Cov(n, l, r), Pow2(n), c[1], c[2]) >= 0

\* Minimal sample size for which some interval with two finite ends reaches level c:
\* the widest finite interval is X(1)..X(m) with coverage 1 - 2/2^m.  0 = more than MaxN.
DeclMinN(c) ==
  LET ok(m) == CmpFrac(Pow2(m) - 2, Pow2(m), c[1], c[2]) >= 0 IN
  IF \E m \in 2..MaxN : ok(m) THEN CHOOSE m \in 2..MaxN : ok(m) /\ \A j \in 2..(m - 1) : ~ok(j) ELSE 0

\* The contract of the statement, for order statistics l (0 = -inf) and r (n+1 = +inf)
\* and a reported coverage numerator rep.  Any interval satisfying it is acceptable.
NoneContract(n, c, l, r, rep) ==
  /\ 0 <= l /\ l <= MedLo(n) /\ MedHi(n) <= r /\ r <= n + 1      \* ends are sample values or infinite and bracket the centre
  /\ Reaches(n, l, r, c)                                          \* confidence >= requested
  /\ rep = Cov(n, l, r)                                           \* and = exact coverage of the ends returned
  /\ (l = 0 \/ r = n + 1) => (DeclMinN(c) = 0 \/ n < DeclMinN(c))  \* an infinite end only when the sample is too small

\* smallest acceptable r for a given l (n + 2 = none): the acceptable set is {(l, r) : l <= MedLo, r >= Rmin(l)}
Rmin(n, c, l) ==
  IF \E r \in MedHi(n)..(n + 1) : Reaches(n, l, r, c)
  THEN CHOOSE r \in MedHi(n)..(n + 1) : Reaches(n, l, r, c) /\ \A j \in MedHi(n)..(r - 1) : ~Reaches(n, l, j, c)
  ELSE n + 2

(* Operational side: what anone.go does.  medianCI(n, c) = stats.QuantileCI(n, 1/2, c) *)
(* for n <= 30: start at the (lower) mode of Binomial(n, 1/2) and add the larger of  *)
(* the two neighbouring probabilities, the left one on equality, until the level is  *)
(* reached or nothing is left.                                                        *)
RECURSIVE CILoop(_, _, _, _, _)
CILoop(n, c, l, r, acc) ==
  LET lp == Binom(n, l - 1)
      rp == Binom(n, r) IN
  IF CmpFrac(acc, Pow2(n), c[1], c[2]) < 0 /\ (lp > 0 \/ rp > 0)
  THEN IF lp >= rp THEN CILoop(n, c, l - 1, r, acc + lp) ELSE CILoop(n, c, l, r + 1, acc + rp)
  ELSE [l |-> Max(l, 0), r |-> Min(r, n + 1), acc |-> acc]

OpCI(n, c) == LET x == ((n + 2) \div 2) - 1 IN CILoop(n, c, x, x + 1, Binom(n, x))

OpFinite(n, ci) == 0 < ci.l /\ ci.r <= n

\* medianSamples: the first n >= 2 whose interval is finite (0 = none up to MaxN)
OpMinN(c) ==
  IF \E m \in 2..MaxN : OpFinite(m, OpCI(m, c))
  THEN CHOOSE m \in 2..MaxN : OpFinite(m, OpCI(m, c)) /\ \A j \in 2..(m - 1) : ~OpFinite(j, OpCI(j, c))
  ELSE 0

\* Summary: ends by SampleCI, warning iff an end is infinite, naming medianSamples(c)
OpNone(n, c) ==
  LET ci == OpCI(n, c) IN
  [l |-> ci.l, r |-> ci.r, rep |-> ci.acc,
   warn |-> IF ci.l < 1 \/ ci.r - 1 >= n THEN OpMinN(c) ELSE -1]      \* -1 = no warning

\* ================================================================ (2)(3) exact and normal model
Range(s) == {s[i] : i \in DOMAIN s}
Count(s, v) == Cardinality({i \in DOMAIN s : s[i] = v})
Modes(s) == {v \in Range(s) : \A w \in Range(s) : Count(s, w) <= Count(s, v)}
SumSeq(s) == LET f[i \in 0..Len(s)] == IF i = 0 THEN 0 ELSE f[i - 1] + s[i] IN f[Len(s)]
SumSq(s)  == LET f[i \in 0..Len(s)] == IF i = 0 THEN 0 ELSE f[i - 1] + s[i] * s[i] IN f[Len(s)]

\* sorted sequences over SampleVals (NewSample sorts; the harness shuffles)
RECURSIVE SortedSeqs(_, _)
SortedSeqs(len, lo) ==
  IF len = 0 THEN {<<>>}
  ELSE UNION {{<<v>> \o s : s \in SortedSeqs(len - 1, v)} : v \in {w \in SampleVals : w >= lo}}
MinVal == CHOOSE v \in SampleVals : \A w \in SampleVals : v <= w
Samples == UNION {SortedSeqs(k, MinVal) : k \in 1..MaxSample}

\* aexact.go: one pass over the sorted values
OpExact(s) ==
  LET f[i \in 1..Len(s)] ==
        IF i = 1 THEN [val |-> s[1], count |-> 1, mv |-> s[1], mc |-> 1]
        ELSE LET st == f[i - 1] IN
             IF s[i] = st.val
             THEN IF st.count + 1 > st.mc
                  THEN [val |-> st.val, count |-> st.count + 1, mv |-> st.val, mc |-> st.count + 1]
                  ELSE [st EXCEPT !.count = st.count + 1]
             ELSE [st EXCEPT !.val = s[i], !.count = 1]
      fin == f[Len(s)] IN
  [centre |-> fin.mv, lo |-> s[1], hi |-> s[Len(s)], warn |-> fin.mc # Len(s)]

\* anormal.go: mean -/+ w with w >= 0 numeric (t quantile * s / sqrt n), outside the model
OpNormalCentre(s) == RNorm(SumSeq(s), Len(s))

\* ================================================================ (5) comparison
(* A rank pattern is a sequence of <<a, b>>: level i of the pooled order holds a    *)
(* values of sample 1 and b of sample 2 (a + b >= 1).  Everything below depends on  *)
(* the pattern only, so P is invariant under reordering each sample and under any    *)
(* increasing map of the values, positive rescaling included.                        *)
PairSet(rem) == {ab \in (0..rem) \X (0..rem) : ab[1] + ab[2] >= 1 /\ ab[1] + ab[2] <= rem}
RECURSIVE PatsUpTo(_)
PatsUpTo(rem) ==
  {<<>>} \cup UNION {{<<ab>> \o s : s \in PatsUpTo(rem - ab[1] - ab[2])} : ab \in PairSet(rem)}
PatN1(p) == SumSeq([i \in DOMAIN p |-> p[i][1]])
PatN2(p) == SumSeq([i \in DOMAIN p |-> p[i][2]])
PatT(p)  == [i \in DOMAIN p |-> p[i][1] + p[i][2]]
CmpPats  == {p \in PatsUpTo(MaxPool) : PatN1(p) >= 1 /\ PatN2(p) >= 1 /\ PatN1(p) <= PatN2(p)}
Swap(p)  == [i \in DOMAIN p |-> <<p[i][2], p[i][1]>>]
Untied(p) == \A i \in DOMAIN p : p[i][1] + p[i][2] = 1
HasTies(p) == ~Untied(p)

\* 2*U1 when level i gives r[i] of its t[i] values to sample 1: each pair (x1 > x2)
\* counts 2, each tied pair 1
TwoU(t, r) ==
  LET below[i \in 0..Len(t)] == IF i = 0 THEN 0 ELSE below[i - 1] + (t[i] - r[i]) IN
  SumSeq([i \in DOMAIN t |-> r[i] * (2 * below[i - 1] + (t[i] - r[i]))])

\* all ways to deal n1 of the pooled values to sample 1, as vectors r with their
\* multiplicities prod C(t[i], r[i]); together they are the C(N, n1) equally likely
\* assignments of the permutation distribution
RECURSIVE Deals(_, _, _)
Deals(t, i, rem) ==
  IF i > Len(t) THEN (IF rem = 0 THEN << <<>> >> ELSE <<>>)
  ELSE LET m == Min(t[i], rem)
           pre(r) == LET d == Deals(t, i + 1, rem - r) IN [j \in 1..Len(d) |-> <<r>> \o d[j]]
           f[r \in -1..m] == IF r = -1 THEN <<>> ELSE f[r - 1] \o pre(r)
       IN f[m]
Weight(t, r) == LET f[i \in 0..Len(t)] == IF i = 0 THEN 1 ELSE f[i - 1] * Binom(t[i], r[i]) IN f[Len(t)]

\* number of assignments (of n1 values to sample 1) whose 2U satisfies Pred
CountDeals(t, n1, Pred(_)) ==
  LET ds == Deals(t, 1, n1)
      f[j \in 0..Len(ds)] == IF j = 0 THEN 0 ELSE f[j - 1] + (IF Pred(TwoU(t, ds[j])) THEN Weight(t, ds[j]) ELSE 0) IN
  f[Len(ds)]

PoolSize(p) == PatN1(p) + PatN2(p)
Total(p) == Binom(PoolSize(p), PatN1(p))
PatTwoU1(p) == TwoU(PatT(p), [i \in DOMAIN p |-> p[i][1]])
PatTwoMax(p) == 2 * PatN1(p) * PatN2(p)

\* Declarative: the exact two-sided permutation p-value of an untied pattern is the
\* share of assignments whose U is at least as far from its mean n1*n2/2 as the observed one.
ExactTwoSided(p) ==
  LET d == Abs(2 * PatTwoU1(p) - PatTwoMax(p)) IN
  <<CountDeals(PatT(p), PatN1(p), LAMBDA u : Abs(2 * u - PatTwoMax(p)) >= d), Total(p)>>

\* Operational: the U-test called by anone.go, as <<numerator, C(N, n1)>>.
\* CdfCount is the tied / untied lower-tail count of the distribution of U1.
CdfCount(p, twoU, trunc) ==
  LET t == PatT(p)  n1 == PatN1(p) IN
  IF trunc /\ HasTies(p) /\ Len(t) = 2 /\ n1 <= t[1]
     /\ twoU < n1 * (t[1] - n1) /\ twoU > n1 * (t[1] - n1) - (t[1] + t[2])
  THEN Binom(t[1], n1)          \* quotient truncated to 0 instead of floored to -1: the r2 = 0 term is counted
  ELSE CountDeals(t, n1, LAMBDA u : u <= twoU)

OpPWith(p, smaller, trunc) ==
  LET u1 == PatTwoU1(p)
      u2 == PatTwoMax(p) - u1
      tot == Total(p) IN
  IF Len(p) = 1 THEN <<tot, tot>>                 \* all values equal: the test fails, reported as P = 1
  ELSE IF u1 = u2 THEN <<tot, tot>>
  ELSE IF smaller
       THEN <<2 * CdfCount(p, Min(u1, u2), trunc), tot>>
       ELSE <<Min(tot, 2 * Min(CountDeals(PatT(p), PatN1(p), LAMBDA u : u <= u1),
                               CountDeals(PatT(p), PatN1(p), LAMBDA u : u >= u1))), tot>>

OpP(p) == OpPWith(p, TwoSidedFromSmallerU, UTestTruncDiv)

\* which threshold the comparison carries
Models == {"none", "exact", "normal"}
Tests(m) == m \in {"none", "normal"}
OpAlpha(m, a) == IF m = "none" THEN a
                 ELSE IF m = "normal" THEN (IF NormalCompareNoAlpha THEN <<0, 1>> ELSE a)
                 ELSE <<0, 1>>

\* ================================================================ (6) rendering
(* Comparison.FormatDelta.  Declarative table: rows <<guard, text>>; the rows must  *)
(* be total and disjoint.  Percentages are rounded to two decimals; inputs whose     *)
(* third decimal is an exact 5 are outside the domain.                               *)
Pct100(old, new) == RMul(RSub(RDiv(new, old), RInt(1)), RInt(10000))     \* (new/old - 1)*100, in hundredths
PctText(old, new) ==
  LET x == Pct100(old, new)
      h == RRound(RAbs(x)) IN
  <<IF RSgn(x) < 0 THEN "-" ELSE "+">> \o Digits(h \div 100) \o <<".", DigitCh((h % 100) \div 10), DigitCh(h % 10), "%">>
DeltaInDomain(old, new) == old[1] = 0 \/ ~RIsHalf(RAbs(Pct100(old, new)))

DeltaRows(P, a, old, new) ==
  << <<RLt(a, P),                                        <<"~">> >>,
     <<RLe(P, a) /\ old = new,                           <<"0", ".", "0", "0", "%">> >>,
     <<RLe(P, a) /\ old # new /\ old[1] = 0,             <<"?">> >>,
     <<RLe(P, a) /\ old # new /\ old[1] # 0,             IF old[1] # 0 THEN PctText(old, new) ELSE <<>> >> >>
\* sample.go: the if-chain
OpDelta(P, a, old, new) ==
  IF RLt(a, P) THEN <<"~">>
  ELSE IF old = new THEN <<"0", ".", "0", "0", "%">>
  ELSE IF old[1] = 0 THEN <<"?">>
  ELSE PctText(old, new)

(* Summary.PctRangeString.  An end is [inf |-> -1 / 0 / 1, v |-> rational].            *)
Fin(v)   == [inf |-> 0, v |-> v]
NegInf   == [inf |-> -1, v |-> <<0, 1>>]
PosInf   == [inf |-> 1, v |-> <<0, 1>>]
ESgn(e)  == IF e.inf # 0 THEN e.inf ELSE RSgn(e.v)
\* the larger relative deviation of the ends from the centre, in percent
RelDev(c, lo, hi) == RMul(RDiv(RMax(RAbs(RSub(hi, c)), RAbs(RSub(c, lo))), RAbs(c)), RInt(100))
\* what the code computes: max(hi/c - 1, 1 - lo/c), in percent
SignedDev(c, lo, hi) == RMul(RMax(RSub(RDiv(hi, c), RInt(1)), RSub(RInt(1), RDiv(lo, c))), RInt(100))
RangeInDomain(c, lo, hi) ==
  (lo.inf = 0 /\ hi.inf = 0 /\ c[1] # 0 /\ RSgn(lo.v) = RSgn(c) /\ RSgn(hi.v) = RSgn(c))
    => (~RIsHalf(RelDev(c, lo.v, hi.v)) /\ ~RIsHalf(RAbs(SignedDev(c, lo.v, hi.v))))
RangeRows(c, lo, hi) ==
  LET anyInf == lo.inf # 0 \/ hi.inf # 0
      signs  == ESgn(lo) = RSgn(c) /\ ESgn(hi) = RSgn(c) IN
  << <<anyInf,                               INF>>,
     <<~anyInf /\ ~signs,                    <<"?">> >>,
     <<~anyInf /\ signs /\ c[1] = 0,         <<"0", "%">> >>,
     <<~anyInf /\ signs /\ c[1] # 0,         IF ~anyInf /\ c[1] # 0 THEN Digits(RRound(RelDev(c, lo.v, hi.v))) \o <<"%">> ELSE <<>> >> >>
OpRangeWith(c, lo, hi, signed) ==
  IF lo.inf # 0 \/ hi.inf # 0 THEN INF
  ELSE IF RSgn(c) # RSgn(lo.v) \/ RSgn(c) # RSgn(hi.v) THEN <<"?">>
  ELSE IF c[1] = 0 THEN <<"0", "%">>
  ELSE IF signed
       THEN LET v == SignedDev(c, lo.v, hi.v) IN
            (IF RSgn(v) < 0 THEN <<"-">> ELSE <<>>) \o Digits(RRound(RAbs(v))) \o <<"%">>
       ELSE Digits(RRound(RelDev(c, lo.v, hi.v))) \o <<"%">>

OpRange(c, lo, hi) == OpRangeWith(c, lo, hi, PctRangeSigned)

TrueRows(rows) == {i \in DOMAIN rows : rows[i][1]}

\* ================================================================ inputs
NoneCases   == [kind : {"none"}, n : 1..MaxN, c : ConfGrid]
SampleCases == [kind : {"sample"}, xs : Samples]
CmpCases    == [kind : {"cmp"}, pat : CmpPats]
AlphaCases  == [kind : {"alpha"}, model : Models, a : AlphaGrid]
DeltaNews(old) == IF old[1] = 0 THEN {<<0, 1>>, <<1, 1>>, <<-3, 2>>}
                  ELSE {RMul(old, RNorm(10000 + k, 10000)) : k \in DeltaK}
DeltaCases  == {[kind |-> "delta", P |-> P, a |-> a, old |-> old, new |-> new] :
                  P \in PGrid, a \in AlphaGrid, old \in DeltaOld, new \in UNION {DeltaNews(o) : o \in DeltaOld}}
RangeEnds   == {Fin(RInt(v)) : v \in RangeVals} \cup {NegInf, PosInf}
ELe(x, y)   == x.inf < y.inf \/ (x.inf = 0 /\ y.inf = 0 /\ RLe(x.v, y.v))
RangeCases  == {[kind |-> "range", c |-> RInt(c), lo |-> lo, hi |-> hi] :
                  c \in RangeVals, lo \in {e \in RangeEnds : e.inf <= 0}, hi \in {e \in RangeEnds : e.inf >= 0}}

\* ================================================================ (4) medianCache
(* anone.go medianCI: Load(key); on a miss compute and Store(key).  The two steps of  *)
(* one caller are not atomic; several goroutines (benchstat computes cells            *)
(* concurrently) interleave freely.                                                   *)
VARIABLES inp, cache, pc, arg, ans, calls
vars == <<inp, cache, pc, arg, ans, calls>>
Procs == 1..NProcs
None == [l |-> -1, r |-> -1, acc |-> -1]

Compute(k) == OpCI(k[1], k[2])

Init ==
  /\ \/ inp \in NoneCases \/ inp \in SampleCases \/ inp \in CmpCases \/ inp \in AlphaCases
     \/ inp \in DeltaCases \/ inp \in RangeCases \/ inp = [kind |-> "cache"]
  /\ cache = <<>> /\ pc = [p \in Procs |-> "idle"] /\ arg = [p \in Procs |-> <<0, <<0, 1>>>>]
  /\ ans = [p \in Procs |-> None] /\ calls = 0

Call(p, k) ==
  /\ inp.kind = "cache" /\ pc[p] = "idle" /\ calls < MaxCalls
  /\ calls' = calls + 1
  /\ arg' = [arg EXCEPT ![p] = k]
  /\ IF k \in DOMAIN cache
     THEN /\ ans' = [ans EXCEPT ![p] = cache[k]]      \* hit: return what is stored
          /\ pc' = pc
     ELSE /\ pc' = [pc EXCEPT ![p] = "miss"]
          /\ ans' = [ans EXCEPT ![p] = None]
  /\ UNCHANGED <<inp, cache>>

Store(p) ==
  /\ inp.kind = "cache" /\ pc[p] = "miss"
  /\ cache' = [x \in DOMAIN cache \cup {arg[p]} |-> IF x = arg[p] THEN Compute(arg[p]) ELSE cache[x]]
  /\ ans' = [ans EXCEPT ![p] = Compute(arg[p])]
  /\ pc' = [pc EXCEPT ![p] = "idle"]
  /\ UNCHANGED <<inp, arg, calls>>

Next == \E p \in Procs : Store(p) \/ \E k \in CacheKeys : Call(p, k)
Spec == Init /\ [][Next]_vars

\* ================================================================ properties
TypeOK == inp.kind \in {"none", "sample", "cmp", "alpha", "delta", "range", "cache"}

\* (1) the code's choice of order statistics satisfies the contract of the statement
NoneOK ==
  inp.kind = "none" =>
    LET s == OpNone(inp.n, inp.c) IN
    /\ NoneContract(inp.n, inp.c, s.l, s.r, s.rep)
    /\ (s.warn # -1) <=> (s.l = 0 \/ s.r = inp.n + 1)         \* warning iff an end is infinite
    /\ (s.warn # -1) => s.warn = DeclMinN(inp.c)                \* and it names the minimal sufficient n
    /\ s.r >= Rmin(inp.n, inp.c, s.l)
\* the two definitions of "how many samples are needed" agree on the whole grid
MinNOK == inp.kind = "none" => OpMinN(inp.c) = DeclMinN(inp.c) /\ DeclMinN(inp.c) # 0
\* coverage arithmetic: whole line = 1, symmetric, widest finite interval
CoverageOK ==
  inp.kind = "none" =>
    LET n == inp.n IN
    /\ Cov(n, 0, n + 1) = Pow2(n)
    /\ \A l \in 0..(n + 1) : \A r \in l..(n + 1) : Cov(n, l, r) = Cov(n, n + 1 - r, n + 1 - l)
    /\ n >= 2 => Cov(n, 1, n) = Pow2(n) - 2

\* (2) exact model: centre is a most frequent value, warning iff values differ
ExactOK ==
  inp.kind = "sample" =>
    LET e == OpExact(inp.xs) IN
    /\ e.centre \in Modes(inp.xs)
    /\ e.warn <=> Cardinality(Range(inp.xs)) > 1
    /\ e.lo <= e.centre /\ e.centre <= e.hi
\* (3) normal model: centre is the mean (n * centre = sum) and lies within the sample's range
NormalOK ==
  inp.kind = "sample" =>
    LET m == OpNormalCentre(inp.xs)  n == Len(inp.xs) IN
    /\ m[1] * n = SumSeq(inp.xs) * m[2]
    /\ inp.xs[1] * m[2] <= m[1] /\ m[1] <= inp.xs[n] * m[2]

\* (5) P of the comparison
InUnit(x) == 0 <= x[1] /\ x[1] <= x[2]
CmpRangeOK     == inp.kind = "cmp" => InUnit(OpP(inp.pat)) /\ InUnit(OpP(Swap(inp.pat)))
CmpSymmetricOK == inp.kind = "cmp" => OpP(inp.pat) = OpP(Swap(inp.pat))      \* same total C(N,n1) = C(N,n2)
CmpExactOK     == (inp.kind = "cmp" /\ Untied(inp.pat)) => OpP(inp.pat) = ExactTwoSided(inp.pat)
\* the assignments enumerated are all C(N, n1) of them (non-vacuity of the brute force)
DealsOK == inp.kind = "cmp" => CountDeals(PatT(inp.pat), PatN1(inp.pat), LAMBDA u : TRUE) = Total(inp.pat)
AlphaOK == (inp.kind = "alpha" /\ Tests(inp.model)) => OpAlpha(inp.model, inp.a) = inp.a

\* (6) decision tables: total, disjoint, and the code's if-chain picks the true row
DeltaOK ==
  (inp.kind = "delta" /\ DeltaInDomain(inp.old, inp.new)) =>
    LET rows == DeltaRows(inp.P, inp.a, inp.old, inp.new) IN
    /\ Cardinality(TrueRows(rows)) = 1
    /\ \A i \in TrueRows(rows) : OpDelta(inp.P, inp.a, inp.old, inp.new) = rows[i][2]
\* a difference is shown as a percentage exactly when p does not exceed the threshold
\* the samples were created with (for the models that test)
ShownOK ==
  (inp.kind = "delta" /\ DeltaInDomain(inp.old, inp.new)) =>
    \A m \in {x \in Models : Tests(x)} :
      (OpDelta(inp.P, OpAlpha(m, inp.a), inp.old, inp.new) # <<"~">>) <=> RLe(inp.P, inp.a)
RangeOK ==
  (inp.kind = "range" /\ ELe(inp.lo, Fin(inp.c)) /\ ELe(Fin(inp.c), inp.hi) /\ RangeInDomain(inp.c, inp.lo, inp.hi)) =>
    LET rows == RangeRows(inp.c, inp.lo, inp.hi) IN
    /\ Cardinality(TrueRows(rows)) = 1
    /\ \A i \in TrueRows(rows) : OpRange(inp.c, inp.lo, inp.hi) = rows[i][2]

\* (4) the cache is transparent: whatever the history, what is stored and what is
\* answered is what a fresh computation gives
CacheOK ==
  inp.kind = "cache" =>
    /\ \A k \in DOMAIN cache : cache[k] = Compute(k)
    /\ \A p \in Procs : (pc[p] = "idle" /\ ans[p] # None) => ans[p] = Compute(arg[p])
=============================================================================
