SPECIFICATION Spec
CONSTANTS
  MaxN = 30
  ConfGrid <- ConfQuick
  AlphaGrid <- AlphaAll
  PGrid <- PAll
  MaxPool = 6
  SampleVals <- ValsDefault
  MaxSample = 4
  DeltaOld <- OldQuick
  DeltaK <- KQuick
  RangeVals <- RangeQuick
  CacheKeys <- KeysDefault
  MaxCalls = 4
  NProcs = 2
  NormalCompareNoAlpha = TRUE
  TwoSidedFromSmallerU = TRUE
  UTestTruncDiv = TRUE
  PctRangeSigned = TRUE
INVARIANTS TypeOK NoneOK MinNOK CoverageOK ExactOK NormalOK CmpRangeOK CmpSymmetricOK CmpExactOK DealsOK AlphaOK DeltaOK ShownOK RangeOK CacheOK
CHECK_DEADLOCK FALSE
