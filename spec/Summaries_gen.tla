---------------------------- MODULE Summaries_gen ----------------------------
(* Generator wrapper (mode G) of Summaries: every input is an initial state; the    *)
(* invariant Emit prints one JSON replay case per input with the expectation taken  *)
(* from the DECLARATIVE side of the specification (contract tables, exact p-value,  *)
(* the true row of the decision tables).  The as-built predictions (asb...) are     *)
(* printed next to it only so that the harness can give a deviation of the real     *)
(* code a precise signature; they never decide a verdict.                           *)
EXTENDS Summaries, Json

CONSTANTS MaxNLarge,     \* sample sizes MaxN+1 .. MaxNLarge: contract without the exactness clause
          LargeSizes,    \* sizes of harness-generated comparison samples
          OrderLen       \* cache call orders up to this length

SetToSeqBy(S, Less(_, _)) ==      \* small sets only
  LET RECURSIVE go(_)
      go(T) == IF T = {} THEN <<>>
               ELSE LET m == CHOOSE x \in T : \A y \in T : x = y \/ Less(x, y) IN <<m>> \o go(T \ {m})
  IN go(S)
IntSetToSeq(S) == SetToSeqBy(S, LAMBDA x, y : x < y)

\* ---- centres of the two samples of a pattern under the canonical embedding level i |-> i
Expand(p, side) ==
  LET RECURSIVE go(_)
      go(i) == IF i > Len(p) THEN <<>> ELSE [j \in 1..p[i][side] |-> i] \o go(i + 1)
  IN go(1)
Median(s) == RNorm(s[MedLo(Len(s))] + s[MedHi(Len(s))], 2)
Mean(s)   == RNorm(SumSeq(s), Len(s))
\* text of the delta when it is shown (the rows below the "~" row), <<>> outside the domain
ShownText(old, new) ==
  IF DeltaInDomain(old, new)
  THEN LET rows == DeltaRows(<<0, 1>>, <<1, 1>>, old, new) IN rows[CHOOSE i \in TrueRows(rows) : TRUE][2]
  ELSE <<>>

NoneLargeCases  == [kind : {"nonelarge"}, n : (MaxN + 1)..MaxNLarge, c : ConfGrid]
CmpLargeCases   == [kind : {"cmplarge"}, n1 : LargeSizes, n2 : LargeSizes, tied : BOOLEAN]
\* normal model, every sample size of the statement's quantifier ("1 to 70 values") x level: the
\* contract "the mean with its t interval" (centre = mean; the ends are the mean -+ h with
\* P(|T| <= h sqrt(n) / s) = level for Student's t with n-1 degrees of freedom) does not depend
\* on the size; the harness draws the samples and evaluates the contract in exact rationals and
\* by quadrature of the t density
NormalLargeCases == [kind : {"normallarge"}, n : 1..MaxNLarge, c : ConfGrid]
RECURSIVE OrdersOf(_)
OrdersOf(len) == IF len = 0 THEN {<<>>} ELSE {Append(s, k) : s \in OrdersOf(len - 1), k \in CacheKeys}
CacheOrderCases == {[kind |-> "cacheorder", calls |-> s] : s \in UNION {OrdersOf(k) : k \in 1..OrderLen}}

GInit ==
  /\ \/ inp \in NoneCases \/ inp \in SampleCases \/ inp \in CmpCases
     \/ inp \in DeltaCases \/ inp \in RangeCases
     \/ inp \in NoneLargeCases \/ inp \in CmpLargeCases \/ inp \in CacheOrderCases
     \/ inp \in NormalLargeCases
     \/ inp = [kind |-> "grid"]
  /\ cache = <<>> /\ pc = [p \in Procs |-> "idle"] /\ arg = [p \in Procs |-> <<0, <<0, 1>>>>]
  /\ ans = [p \in Procs |-> None] /\ calls = 0
GNext == UNCHANGED vars
GSpec == GInit /\ [][GNext]_vars

CaseOf(i) ==
  CASE i.kind = "none" ->
         LET n == i.n  c == i.c  op == OpNone(n, c) IN
         [tag |-> "case", kind |-> "none", n |-> n, c |-> c, pow |-> Pow2(n),
          cum |-> CumTab[n], rmin |-> [l \in 1..(MedLo(n) + 1) |-> Rmin(n, c, l - 1)],
          medLo |-> MedLo(n), medHi |-> MedHi(n), minN |-> DeclMinN(c),
          opl |-> op.l, opr |-> op.r]
    [] i.kind = "nonelarge" ->
         [tag |-> "case", kind |-> "nonelarge", n |-> i.n, c |-> i.c,
          medLo |-> MedLo(i.n), medHi |-> MedHi(i.n), minN |-> DeclMinN(i.c)]
    [] i.kind = "sample" ->
         LET s == i.xs  n == Len(s) IN
         [tag |-> "case", kind |-> "sample", xs |-> s, modes |-> IntSetToSeq(Modes(s)),
          differ |-> Cardinality(Range(s)) > 1, sum |-> SumSeq(s), n |-> n,
          varnum |-> n * SumSq(s) - SumSeq(s) * SumSeq(s)]
    [] i.kind = "cmp" ->
         LET p == i.pat  s1 == Expand(p, 1)  s2 == Expand(p, 2) IN
         [tag |-> "case", kind |-> "cmp",
          a |-> [j \in DOMAIN p |-> p[j][1]], b |-> [j \in DOMAIN p |-> p[j][2]],
          n1 |-> PatN1(p), n2 |-> PatN2(p), tied |-> HasTies(p), total |-> Total(p),
          exact |-> IF Untied(p) THEN ExactTwoSided(p) ELSE <<-1, 1>>,
          asb12 |-> OpPWith(p, TRUE, FALSE)[1], asb21 |-> OpPWith(Swap(p), TRUE, FALSE)[1],
          asbt12 |-> OpPWith(p, TRUE, TRUE)[1], asbt21 |-> OpPWith(Swap(p), TRUE, TRUE)[1],
          dnone |-> ShownText(Median(s1), Median(s2)),
          dnormal |-> ShownText(Mean(s1), Mean(s2)),
          dexact |-> IF Cardinality(Modes(s1)) = 1 /\ Cardinality(Modes(s2)) = 1
                     THEN ShownText(RInt(CHOOSE v \in Modes(s1) : TRUE), RInt(CHOOSE v \in Modes(s2) : TRUE))
                     ELSE <<>>]
    [] i.kind = "cmplarge" ->
         [tag |-> "case", kind |-> "cmplarge", n1 |-> i.n1, n2 |-> i.n2, tied |-> i.tied]
    [] i.kind = "normallarge" ->
         [tag |-> "case", kind |-> "normallarge", n |-> i.n, c |-> i.c, dof |-> i.n - 1]
    [] i.kind = "delta" ->
         LET rows == DeltaRows(i.P, i.a, i.old, i.new) IN
         [tag |-> "case", kind |-> "delta", P |-> i.P, alpha |-> i.a, old |-> i.old, new |-> i.new,
          want |-> rows[CHOOSE r \in TrueRows(rows) : TRUE][2]]
    [] i.kind = "range" ->
         LET rows == RangeRows(i.c, i.lo, i.hi) IN
         [tag |-> "case", kind |-> "range", c |-> i.c,
          loinf |-> i.lo.inf, lo |-> i.lo.v, hiinf |-> i.hi.inf, hi |-> i.hi.v,
          want |-> rows[CHOOSE r \in TrueRows(rows) : TRUE][2],
          asb |-> OpRangeWith(i.c, i.lo, i.hi, TRUE)]
    [] i.kind = "cacheorder" ->
         [tag |-> "case", kind |-> "cacheorder", calls |-> [j \in DOMAIN i.calls |-> <<i.calls[j][1], i.calls[j][2][1], i.calls[j][2][2]>>]]
    [] i.kind = "grid" ->
         [tag |-> "grid", kind |-> "grid",
          alphas |-> SetToSeqBy(AlphaGrid, LAMBDA x, y : RLt(x, y)),
          confs  |-> SetToSeqBy(ConfGrid, LAMBDA x, y : RLt(x, y))]

InDomain(i) ==
  CASE i.kind = "delta" -> DeltaInDomain(i.old, i.new)
    [] i.kind = "range" -> ELe(i.lo, Fin(i.c)) /\ ELe(Fin(i.c), i.hi) /\ RangeInDomain(i.c, i.lo, i.hi)
    [] i.kind = "cmplarge" -> i.n1 <= i.n2
    [] OTHER -> TRUE

Emit == IF InDomain(inp) THEN PrintT(ToJson(CaseOf(inp))) ELSE TRUE
=============================================================================
