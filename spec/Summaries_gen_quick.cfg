SPECIFICATION GSpec
CONSTANTS
  MaxN = 30
  MaxNLarge = 70
  ConfGrid <- ConfQuick
  AlphaGrid <- AlphaAll
  PGrid <- PAll
  MaxPool = 6
  SampleVals <- ValsDefault
  MaxSample = 4
  DeltaOld <- OldQuick
  DeltaK <- KQuick
  RangeVals <- RangeQuick
  CacheKeys <- KeysDefault
  MaxCalls = 4
  NProcs = 2
  LargeSizes = {9, 20, 25, 26, 31, 50, 51, 70}
  OrderLen = 3
  NormalCompareNoAlpha = FALSE
  TwoSidedFromSmallerU = FALSE
  UTestTruncDiv = FALSE
  PctRangeSigned = FALSE
INVARIANTS Emit
CHECK_DEADLOCK FALSE
