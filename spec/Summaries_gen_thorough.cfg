SPECIFICATION GSpec
CONSTANTS
  MaxN = 30
  MaxNLarge = 70
  ConfGrid <- ConfThorough
  AlphaGrid <- AlphaAll
  PGrid <- PAll
  MaxPool = 8
  SampleVals <- ValsDefault
  MaxSample = 6
  DeltaOld <- OldThorough
  DeltaK <- KThorough
  RangeVals <- RangeThorough
  CacheKeys <- KeysDefault
  MaxCalls = 4
  NProcs = 2
  LargeSizes = {9, 13, 20, 24, 25, 26, 30, 31, 40, 49, 50, 51, 60, 70}
  OrderLen = 4
  NormalCompareNoAlpha = FALSE
  TwoSidedFromSmallerU = FALSE
  UTestTruncDiv = FALSE
  PctRangeSigned = FALSE
INVARIANTS Emit
CHECK_DEADLOCK FALSE
