SPECIFICATION Spec
CONSTANTS
  MaxN = 30
  ConfGrid <- ConfThorough
  AlphaGrid <- AlphaAll
  PGrid <- PAll
  MaxPool = 8
  SampleVals <- ValsDefault
  MaxSample = 6
  DeltaOld <- OldThorough
  DeltaK <- KThorough
  RangeVals <- RangeThorough
  CacheKeys <- KeysDefault
  MaxCalls = 5
  NProcs = 3
  NormalCompareNoAlpha = FALSE
  TwoSidedFromSmallerU = FALSE
  UTestTruncDiv = FALSE
  PctRangeSigned = FALSE
INVARIANTS TypeOK NoneOK MinNOK CoverageOK ExactOK NormalOK CmpRangeOK CmpSymmetricOK CmpExactOK DealsOK AlphaOK DeltaOK ShownOK RangeOK CacheOK
CHECK_DEADLOCK FALSE
