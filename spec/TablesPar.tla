------------------------------- MODULE TablesPar -------------------------------
(* benchstat's parallel table computation, Builder.ToTables in                  *)
(* cmd/benchstat/internal/benchtab/builder.go, at the grain of its goroutines:   *)
(*                                                                               *)
(*   main     walks the tables in sorted order; for each table it creates all    *)
(*            cells, then for every cell - in the arbitrary order of Go's map    *)
(*            iteration - links the baseline, acquires a slot of the semaphore   *)
(*            (capacity L = 2*GOMAXPROCS) and spawns a cell worker; waits for    *)
(*            all cell workers (barrier 1); then creates one summary slot per    *)
(*            column, acquires a slot and spawns a column worker; waits again    *)
(*            (barrier 2); returns.                                              *)
(*   cell w   begin; reads its own sample and its baseline's sample, writes its  *)
(*            own summary / comparison / warnings; end; releases the slot        *)
(*   col w    begin; reads the summaries of its column and of the baseline       *)
(*            column, writes its own column summary; end; releases               *)
(*                                                                               *)
(* Every step carries the set of abstract memory locations it reads and writes.  *)
(* Properties (C15): RaceFree, BarrierRespected (nothing is read before it is    *)
(* written), Deterministic (the final contents do not depend on the              *)
(* interleaving or on the map order), SemBound, and termination under weak       *)
(* fairness.  NoBarrier1 = TRUE removes the first wg.Wait (negative control).    *)
EXTENDS Naturals, Sequences, FiniteSets, TLC

CONSTANTS NTables, Rows, Cols, SparseTable1, L, NoBarrier1
\* tables are 1..NTables, each with cells (Rows \X Cols) \ Missing; the first
\* element of ColOrder is the baseline column
ASSUME L >= 1
\* SparseTable1: table 1 lacks the cell in the last row of the baseline column and the
\* cell in the first row of the last column (missing baseline / unequal benchmark sets)
RowOrder == CHOOSE s \in [1..Cardinality(Rows) -> Rows] : \A i, j \in 1..Cardinality(Rows) : i # j => s[i] # s[j]

ColOrder == CHOOSE s \in [1..Cardinality(Cols) -> Cols] : \A i, j \in 1..Cardinality(Cols) : i # j => s[i] # s[j]
Base == ColOrder[1]
Tables == 1..NTables
Missing == IF SparseTable1
           THEN {<<1, RowOrder[Cardinality(Rows)], ColOrder[1]>>, <<1, RowOrder[1], ColOrder[Cardinality(Cols)]>>}
           ELSE {}
CellsOf(t) == {rc \in Rows \X Cols : <<t, rc[1], rc[2]>> \notin Missing}
CellWorkers == {w \in {<<"cell", t, r, c>> : t \in Tables, r \in Rows, c \in Cols} : <<w[3], w[4]>> \in CellsOf(w[2])}
ColWorkers == {<<"col", t, "-", c>> : t \in Tables, c \in Cols}
Workers == CellWorkers \cup ColWorkers

\* abstract memory locations
Sample(t, r, c)  == <<"sample", t, r, c>>
Summ(t, r, c)    == <<"summary", t, r, c>>     \* cell.Summary, cell.Comparison, cell.Sample.Warnings
BaseLink(t, r, c) == <<"baseline", t, r, c>>   \* cell.Baseline pointer
ColSum(t, c)     == <<"colsummary", t, c>>
SumMap(t)        == <<"summarymap", t>>        \* table.Summary (a Go map)

HasBase(w) == w[4] # Base /\ <<w[3], Base>> \in CellsOf(w[2])

Reads(w) ==
  IF w[1] = "cell"
  THEN {Sample(w[2], w[3], w[4]), BaseLink(w[2], w[3], w[4])}
       \cup (IF HasBase(w) THEN {Sample(w[2], w[3], Base)} ELSE {})
  ELSE {Summ(w[2], rc[1], rc[2]) : rc \in {x \in CellsOf(w[2]) : x[2] \in {w[4], Base}}}
       \cup {BaseLink(w[2], rc[1], rc[2]) : rc \in {x \in CellsOf(w[2]) : x[2] = w[4]}}
Writes(w) ==
  IF w[1] = "cell" THEN {Summ(w[2], w[3], w[4])} ELSE {ColSum(w[2], w[4])}

VARIABLES
  mt,        \* main: table being processed (NTables+1 = past the last)
  mphase,    \* "cells" | "wait1" | "cols" | "wait2" | "done"
  todo,      \* main: workers of the current table not yet spawned
  pending,   \* main: worker chosen next, slot not yet acquired ("none" or a worker)
  sem,       \* slots taken
  spawned, running, done,   \* sets of workers
  written,   \* set of locations that hold their final value
  mainw      \* locations main is writing in its current step (for the race check)

vars == <<mt, mphase, todo, pending, sem, spawned, running, done, written, mainw>>

None == <<"none">>

InitialWritten == {Sample(t, rc[1], rc[2]) : t \in Tables, rc \in Rows \X Cols}

Init ==
  /\ mt = 1 /\ mphase = "cells"
  /\ todo = {w \in CellWorkers : w[2] = 1}
  /\ pending = None /\ sem = 0
  /\ spawned = {} /\ running = {} /\ done = {}
  /\ written = InitialWritten
  /\ mainw = {}

\* main picks the next worker in map-iteration order (any), prepares it
MainPick ==
  /\ mphase \in {"cells", "cols"} /\ pending = None /\ todo # {}
  /\ \E w \in todo :
       /\ pending' = w
       /\ todo' = todo \ {w}
       /\ mainw' = IF w[1] = "cell" THEN {BaseLink(w[2], w[3], w[4])} ELSE {SumMap(w[2])}
       /\ written' = written \cup (IF w[1] = "cell" THEN {BaseLink(w[2], w[3], w[4])} ELSE {SumMap(w[2])})
  /\ UNCHANGED <<mt, mphase, sem, spawned, running, done>>

\* limit <- struct{}{} ; go func() {...}()
MainSpawn ==
  /\ pending # None /\ sem < L
  /\ sem' = sem + 1
  /\ spawned' = spawned \cup {pending}
  /\ pending' = None /\ mainw' = {}
  /\ UNCHANGED <<mt, mphase, todo, running, done, written>>

\* all workers of this table spawned: next table, or go and wait
MainAdvance ==
  /\ mphase \in {"cells", "cols"} /\ pending = None /\ todo = {}
  /\ IF mt < NTables
     THEN /\ mt' = mt + 1
          /\ todo' = IF mphase = "cells" THEN {w \in CellWorkers : w[2] = mt + 1} ELSE {w \in ColWorkers : w[2] = mt + 1}
          /\ mphase' = mphase
     ELSE /\ mt' = mt /\ todo' = {}
          /\ mphase' = IF mphase = "cells" THEN "wait1" ELSE "wait2"
  /\ UNCHANGED <<pending, sem, spawned, running, done, written, mainw>>

\* wg.Wait()
MainWait1 ==
  /\ mphase = "wait1"
  /\ (NoBarrier1 \/ CellWorkers \subseteq done)
  /\ mphase' = "cols" /\ mt' = 1
  /\ todo' = {w \in ColWorkers : w[2] = 1}
  /\ UNCHANGED <<pending, sem, spawned, running, done, written, mainw>>

MainWait2 ==
  /\ mphase = "wait2" /\ Workers \subseteq done
  /\ mphase' = "done"
  /\ UNCHANGED <<mt, todo, pending, sem, spawned, running, done, written, mainw>>

Begin(w) ==
  /\ w \in spawned /\ w \notin running /\ w \notin done
  /\ running' = running \cup {w}
  /\ UNCHANGED <<mt, mphase, todo, pending, sem, spawned, done, written, mainw>>

End(w) ==
  /\ w \in running
  /\ running' = running \ {w}
  /\ done' = done \cup {w}
  /\ written' = written \cup Writes(w)
  /\ sem' = sem - 1
  /\ UNCHANGED <<mt, mphase, todo, pending, spawned, mainw>>

\* ToTables has returned: the only stuttering allowed (TLC's deadlock check stays on,
\* so a state in which nobody can move before that is reported)
Finished == mphase = "done" /\ UNCHANGED vars

Next == MainPick \/ MainSpawn \/ MainAdvance \/ MainWait1 \/ MainWait2
        \/ (\E w \in Workers : Begin(w) \/ End(w)) \/ Finished

Fairness == WF_vars(MainPick) /\ WF_vars(MainSpawn) /\ WF_vars(MainAdvance) /\ WF_vars(MainWait1) /\ WF_vars(MainWait2)
            /\ \A w \in Workers : WF_vars(Begin(w)) /\ WF_vars(End(w))
Spec == Init /\ [][Next]_vars /\ Fairness

-----------------------------------------------------------------------------
Conflict(w1, w2) == (Writes(w1) \cap (Reads(w2) \cup Writes(w2))) # {} \/ (Writes(w2) \cap Reads(w1)) # {}

\* no two workers that can be inside their computation at the same time touch the
\* same location with a write, and neither does main against a running worker
RaceFree ==
  /\ \A w1, w2 \in running : w1 # w2 => ~Conflict(w1, w2)
  /\ \A w \in running : mainw \cap (Reads(w) \cup Writes(w)) = {}

\* a running worker only reads locations that already hold their final value
BarrierRespected == \A w \in running : Reads(w) \subseteq written

SemBound == sem <= L /\ sem = Cardinality(spawned \ done)

\* when everything is done every location has been written exactly by its owner:
\* the result is a function of the input alone
Deterministic ==
  mphase = "done" =>
     written = InitialWritten
               \cup {Summ(w[2], w[3], w[4]) : w \in CellWorkers} \cup {BaseLink(w[2], w[3], w[4]) : w \in CellWorkers}
               \cup {ColSum(w[2], w[4]) : w \in ColWorkers} \cup {SumMap(t) : t \in Tables}

TypeOK == /\ running \subseteq spawned /\ done \subseteq spawned /\ running \cap done = {}
          /\ mt \in 1..NTables

Termination == <>(mphase = "done")
=============================================================================
