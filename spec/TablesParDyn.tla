------------------------------ MODULE TablesParDyn ------------------------------
(* TablesPar with the SHAPE of the tables as part of the state instead of module   *)
(* constants, so that one trace specification can follow runs over arbitrary       *)
(* inputs (the repository's own golden tests): `shape` is chosen once (Init, or    *)
(* the reset event of a trace) and never changes.                                  *)
(*                                                                                 *)
(*   shape.nt      number of tables (1..nt, in the order main walks them)          *)
(*   shape.cells   set of <<t, r, c>>: the cells that exist (rows, columns: ints)   *)
(*   shape.cols    set of <<t, c>>: the columns of each table                       *)
(*   shape.base    [1..nt -> column]: the baseline column of each table             *)
(*   shape.samples locations holding the input samples                              *)
(*                                                                                 *)
(* Actions and properties are those of TablesPar, word for word, over these        *)
(* operators; TablesPar_refines.tla has TLC check that TablesPar (constants) is    *)
(* this specification with `shape` fixed (a refinement mapping that is the         *)
(* identity on all other variables).                                               *)
EXTENDS Naturals, Sequences, FiniteSets, TLC

CONSTANTS L, NoBarrier1
ASSUME L >= 1

VARIABLES
  shape,
  mt, mphase, todo, pending, sem, spawned, running, done, written, mainw

vars == <<shape, mt, mphase, todo, pending, sem, spawned, running, done, written, mainw>>

NT == shape.nt
Base(t) == shape.base[t]
HasCell(t, r, c) == <<t, r, c>> \in shape.cells
CellWorkers == {<<"cell", x[1], x[2], x[3]>> : x \in shape.cells}
ColWorkers == {<<"col", x[1], 0, x[2]>> : x \in shape.cols}
Workers == CellWorkers \cup ColWorkers

Sample(t, r, c)   == <<"sample", t, r, c>>
Summ(t, r, c)     == <<"summary", t, r, c>>
BaseLink(t, r, c) == <<"baseline", t, r, c>>
ColSum(t, c)      == <<"colsummary", t, c>>
SumMap(t)         == <<"summarymap", t>>

HasBase(w) == w[4] # Base(w[2]) /\ HasCell(w[2], w[3], Base(w[2]))

Reads(w) ==
  IF w[1] = "cell"
  THEN {Sample(w[2], w[3], w[4]), BaseLink(w[2], w[3], w[4])}
       \cup (IF HasBase(w) THEN {Sample(w[2], w[3], Base(w[2]))} ELSE {})
  ELSE {Summ(x[1], x[2], x[3]) : x \in {y \in shape.cells : y[1] = w[2] /\ y[3] \in {w[4], Base(w[2])}}}
       \cup {BaseLink(x[1], x[2], x[3]) : x \in {y \in shape.cells : y[1] = w[2] /\ y[3] = w[4]}}
Writes(w) ==
  IF w[1] = "cell" THEN {Summ(w[2], w[3], w[4])} ELSE {ColSum(w[2], w[4])}

None == <<"none">>

InitFor(s) ==
  /\ shape = s
  /\ mt = 1 /\ mphase = "cells"
  /\ todo = {<<"cell", x[1], x[2], x[3]>> : x \in {y \in s.cells : y[1] = 1}}
  /\ pending = None /\ sem = 0
  /\ spawned = {} /\ running = {} /\ done = {}
  /\ written = s.samples
  /\ mainw = {}

MainPick ==
  /\ mphase \in {"cells", "cols"} /\ pending = None /\ todo # {}
  /\ \E w \in todo :
       /\ pending' = w
       /\ todo' = todo \ {w}
       /\ mainw' = IF w[1] = "cell" THEN {BaseLink(w[2], w[3], w[4])} ELSE {SumMap(w[2])}
       /\ written' = written \cup (IF w[1] = "cell" THEN {BaseLink(w[2], w[3], w[4])} ELSE {SumMap(w[2])})
  /\ UNCHANGED <<shape, mt, mphase, sem, spawned, running, done>>

MainSpawn ==
  /\ pending # None /\ sem < L
  /\ sem' = sem + 1
  /\ spawned' = spawned \cup {pending}
  /\ pending' = None /\ mainw' = {}
  /\ UNCHANGED <<shape, mt, mphase, todo, running, done, written>>

MainAdvance ==
  /\ mphase \in {"cells", "cols"} /\ pending = None /\ todo = {}
  /\ IF mt < NT
     THEN /\ mt' = mt + 1
          /\ todo' = IF mphase = "cells" THEN {w \in CellWorkers : w[2] = mt + 1} ELSE {w \in ColWorkers : w[2] = mt + 1}
          /\ mphase' = mphase
     ELSE /\ mt' = mt /\ todo' = {}
          /\ mphase' = IF mphase = "cells" THEN "wait1" ELSE "wait2"
  /\ UNCHANGED <<shape, pending, sem, spawned, running, done, written, mainw>>

MainWait1 ==
  /\ mphase = "wait1"
  /\ (NoBarrier1 \/ CellWorkers \subseteq done)
  /\ mphase' = "cols" /\ mt' = 1
  /\ todo' = {w \in ColWorkers : w[2] = 1}
  /\ UNCHANGED <<shape, pending, sem, spawned, running, done, written, mainw>>

MainWait2 ==
  /\ mphase = "wait2" /\ Workers \subseteq done
  /\ mphase' = "done"
  /\ UNCHANGED <<shape, mt, todo, pending, sem, spawned, running, done, written, mainw>>

Begin(w) ==
  /\ w \in spawned /\ w \notin running /\ w \notin done
  /\ running' = running \cup {w}
  /\ UNCHANGED <<shape, mt, mphase, todo, pending, sem, spawned, done, written, mainw>>

End(w) ==
  /\ w \in running
  /\ running' = running \ {w}
  /\ done' = done \cup {w}
  /\ written' = written \cup Writes(w)
  /\ sem' = sem - 1
  /\ UNCHANGED <<shape, mt, mphase, todo, pending, spawned, mainw>>

Finished == mphase = "done" /\ UNCHANGED vars

Next == MainPick \/ MainSpawn \/ MainAdvance \/ MainWait1 \/ MainWait2
        \/ (\E w \in Workers : Begin(w) \/ End(w)) \/ Finished

-----------------------------------------------------------------------------
Conflict(w1, w2) == (Writes(w1) \cap (Reads(w2) \cup Writes(w2))) # {} \/ (Writes(w2) \cap Reads(w1)) # {}

RaceFree ==
  /\ \A w1, w2 \in running : w1 # w2 => ~Conflict(w1, w2)
  /\ \A w \in running : mainw \cap (Reads(w) \cup Writes(w)) = {}

BarrierRespected == \A w \in running : Reads(w) \subseteq written

SemBound == sem <= L /\ sem = Cardinality(spawned \ done)

Deterministic ==
  mphase = "done" =>
     written = shape.samples
               \cup {Summ(w[2], w[3], w[4]) : w \in CellWorkers} \cup {BaseLink(w[2], w[3], w[4]) : w \in CellWorkers}
               \cup {ColSum(w[2], w[4]) : w \in ColWorkers} \cup {SumMap(t) : t \in 1..NT}
=============================================================================
