SPECIFICATION TSpec
CONSTANTS
  L = 100000
  NoBarrier1 = FALSE
INVARIANTS RaceFree BarrierRespected RunBound
CONSTRAINT HW
POSTCONDITION Post
CHECK_DEADLOCK FALSE
