--------------------------- MODULE TablesParDyn_trace ---------------------------
(* Trace validation of Builder.ToTables on ARBITRARY inputs: the hook events        *)
(* recorded while the repository's own tests (cmd/benchstat's golden tests) run,    *)
(* and while the benchstat binary runs on generated files, must be behaviours of    *)
(* TablesParDyn.  Each run starts with                                              *)
(*   reset{limit, nt, cells: [[t,r,c]..], cols: [[t,c]..], base: [c..]}             *)
(* (written by the recorder when the run has ended and the shape is known, but      *)
(* placed before the run's events), followed by the events of TablesPar_trace:      *)
(* table, cell.spawn/col.spawn, cell.begin/.end, col.begin/.end, barrier1/2, in     *)
(* the order of the hook's lock.  Acquiring the slot and advancing to the next      *)
(* table are silent steps.  The invariants RaceFree, BarrierRespected and RunBound  *)
(* are evaluated at every step of every recorded run.                               *)
EXTENDS TablesParDyn, Json, Integers

TraceLog == ndJsonDeserialize("trace.ndjson")
VARIABLES l, lim
tvars == <<vars, l, lim>>

Ev == TraceLog[l]
WOf(e) == <<e.w.kind, e.w.t, e.w.r, e.w.c>>

EmptyShape == [nt |-> 1, cells |-> {}, cols |-> {}, base |-> <<1>>, samples |-> {}]
TInit == InitFor(EmptyShape) /\ l = 1 /\ lim = 0

Consume == l' = l + 1 /\ UNCHANGED lim

SetOf(s) == {s[i] : i \in 1..Len(s)}
ShapeOf(e) ==
  [nt |-> e.nt,
   cells |-> {<<x[1], x[2], x[3]>> : x \in SetOf(e.cells)},
   cols |-> {<<x[1], x[2]>> : x \in SetOf(e.cols)},
   base |-> [t \in 1..e.nt |-> e.base[t]],
   samples |-> {Sample(x[1], x[2], x[3]) : x \in SetOf(e.cells)}]

TReset ==
  /\ l <= Len(TraceLog) /\ Ev.ev = "reset"
  /\ (l = 1 \/ mphase = "done")
  /\ LET s == ShapeOf(Ev) IN
     /\ shape' = s
     /\ mt' = 1 /\ mphase' = "cells"
     /\ todo' = {<<"cell", x[1], x[2], x[3]>> : x \in {y \in s.cells : y[1] = 1}}
     /\ written' = s.samples
  /\ pending' = None /\ sem' = 0 /\ spawned' = {} /\ running' = {} /\ done' = {}
  /\ mainw' = {}
  /\ l' = l + 1 /\ lim' = Ev.limit

TTable ==
  /\ l <= Len(TraceLog) /\ Ev.ev = "table"
  /\ mphase = "cells" /\ mt = Ev.w.t /\ pending = None
  /\ todo = {w \in CellWorkers : w[2] = mt}
  /\ Consume /\ UNCHANGED vars

TSpawn ==
  /\ l <= Len(TraceLog) /\ Ev.ev \in {"cell.spawn", "col.spawn"}
  /\ mphase \in {"cells", "cols"} /\ pending = None /\ WOf(Ev) \in todo
  /\ mt = Ev.w.t
  /\ pending' = WOf(Ev) /\ todo' = todo \ {WOf(Ev)}
  /\ mainw' = IF Ev.w.kind = "cell" THEN {BaseLink(Ev.w.t, Ev.w.r, Ev.w.c)} ELSE {SumMap(Ev.w.t)}
  /\ written' = written \cup mainw'
  /\ Consume /\ UNCHANGED <<shape, mt, mphase, sem, spawned, running, done>>

TBegin == /\ l <= Len(TraceLog) /\ Ev.ev \in {"cell.begin", "col.begin"}
          /\ Begin(WOf(Ev)) /\ Consume
TEnd ==   /\ l <= Len(TraceLog) /\ Ev.ev \in {"cell.end", "col.end"}
          /\ End(WOf(Ev)) /\ Consume
TBarrier1 == /\ l <= Len(TraceLog) /\ Ev.ev = "barrier1" /\ MainWait1 /\ Consume
TBarrier2 == /\ l <= Len(TraceLog) /\ Ev.ev = "barrier2" /\ MainWait2 /\ Consume
Silent == (MainSpawn \/ MainAdvance) /\ UNCHANGED <<l, lim>>

TNext == TReset \/ TTable \/ TSpawn \/ TBegin \/ TEnd \/ TBarrier1 \/ TBarrier2 \/ Silent
TSpec == TInit /\ [][TNext]_tvars

RunBound == lim > 0 => Cardinality(running) <= lim

HW == IF l > TLCGet(1) THEN TLCSet(1, l) ELSE TRUE
Post == PrintT("TRACE hwm=" \o ToString(TLCGet(1) - 1) \o " len=" \o ToString(Len(TraceLog)))
ASSUME TLCSet(1, 0)
=============================================================================
