SPECIFICATION TSpec
CONSTANTS
  L = 100000
  NoBarrier1 = FALSE
INVARIANTS ObsRaceFree BarrierRespected
CONSTRAINT HW
POSTCONDITION Post
CHECK_DEADLOCK FALSE
