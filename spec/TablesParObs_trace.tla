--------------------------- MODULE TablesParObs_trace ---------------------------
(* The OBSERVER layer of trace validation for Builder.ToTables: it does not ask     *)
(* whether a recorded run is a behaviour of the design (TablesParDyn_trace does),   *)
(* only whether what was observed is safe in the sense of property C15 - "free of   *)
(* data races", nothing read before it holds its final value.  Every event is       *)
(* accepted in any order; the state keeps which workers are inside their            *)
(* computation and which locations hold their final value:                          *)
(*   reset{shape}            new run                                                *)
(*   cell.spawn / col.spawn  main has linked the baseline / made the summary slot   *)
(*   x.begin / x.end         worker enters / leaves its computation; at the end     *)
(*                           its own summary holds its final value                  *)
(*   table, barrier1/2       no effect here                                         *)
(* Invariants, evaluated after every event of every run: ObsRaceFree (no two        *)
(* workers inside their computations at the same time conflict on a location) and   *)
(* BarrierRespected (a worker inside its computation reads only final values).      *)
(* The read and write sets are the model's (TablesParDyn!Reads / Writes).  A        *)
(* restructured but correct implementation (another fan-out bound, per-table        *)
(* joins, a worker pool) passes; a missing join does not.                           *)
EXTENDS TablesParDyn, Json, Integers

TraceLog == ndJsonDeserialize("trace.ndjson")
VARIABLES l
tvars == <<vars, l>>

Ev == TraceLog[l]
WOf(e) == <<e.w.kind, e.w.t, e.w.r, e.w.c>>

EmptyShape == [nt |-> 1, cells |-> {}, cols |-> {}, base |-> <<1>>, samples |-> {}]
TInit == InitFor(EmptyShape) /\ l = 1

SetOf(s) == {s[i] : i \in 1..Len(s)}
ShapeOf(e) ==
  [nt |-> e.nt,
   cells |-> {<<x[1], x[2], x[3]>> : x \in SetOf(e.cells)},
   cols |-> {<<x[1], x[2]>> : x \in SetOf(e.cols)},
   base |-> [t \in 1..e.nt |-> e.base[t]],
   samples |-> {Sample(x[1], x[2], x[3]) : x \in SetOf(e.cells)}]

Keep == UNCHANGED <<mt, mphase, todo, pending, sem, spawned, mainw>>

OReset ==
  /\ Ev.ev = "reset"
  /\ shape' = ShapeOf(Ev) /\ written' = ShapeOf(Ev).samples
  /\ running' = {} /\ done' = {} /\ Keep
OSpawn ==
  /\ Ev.ev \in {"cell.spawn", "col.spawn"}
  /\ written' = written \cup (IF Ev.w.kind = "cell" THEN {BaseLink(Ev.w.t, Ev.w.r, Ev.w.c)} ELSE {SumMap(Ev.w.t)})
  /\ UNCHANGED <<shape, running, done>> /\ Keep
OBegin ==
  /\ Ev.ev \in {"cell.begin", "col.begin"}
  /\ running' = running \cup {WOf(Ev)}
  /\ UNCHANGED <<shape, done, written>> /\ Keep
OEnd ==
  /\ Ev.ev \in {"cell.end", "col.end"}
  /\ running' = running \ {WOf(Ev)} /\ done' = done \cup {WOf(Ev)}
  /\ written' = written \cup Writes(WOf(Ev))
  /\ UNCHANGED shape /\ Keep
OOther ==
  /\ Ev.ev \in {"table", "barrier1", "barrier2"}
  /\ UNCHANGED vars

TNext == l <= Len(TraceLog) /\ l' = l + 1 /\ (OReset \/ OSpawn \/ OBegin \/ OEnd \/ OOther)
TSpec == TInit /\ [][TNext]_tvars

ObsRaceFree == \A w1, w2 \in running : w1 # w2 => ~Conflict(w1, w2)

HW == IF l > TLCGet(1) THEN TLCSet(1, l) ELSE TRUE
Post == PrintT("TRACE hwm=" \o ToString(TLCGet(1) - 1) \o " len=" \o ToString(Len(TraceLog)))
ASSUME TLCSet(1, 0)
=============================================================================
