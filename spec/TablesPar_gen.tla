------------------------------ MODULE TablesPar_gen ------------------------------
(* Generator (mode G) for TablesPar: behaviours are sampled with `-simulate`; each  *)
(* complete behaviour is printed as the total order of worker begin/end events      *)
(* (the schedule the harness imposes through the hook gate) together with the map   *)
(* iteration order main happened to use.                                            *)
EXTENDS TablesPar, Json

CONSTANT Greedy   \* TRUE: a worker ends only when no other worker can begin (maximal overlap)

VARIABLES sched, order
gvars == <<vars, sched, order>>

W(w) == [kind |-> w[1], t |-> w[2], r |-> w[3], c |-> w[4]]

GInit == Init /\ sched = <<>> /\ order = <<>>
GNext ==
  \/ (MainPick /\ order' = Append(order, W(pending')) /\ UNCHANGED sched)
  \/ ((MainSpawn \/ MainAdvance \/ MainWait1 \/ MainWait2) /\ UNCHANGED <<sched, order>>)
  \/ \E w \in Workers : Begin(w) /\ sched' = Append(sched, [e |-> "begin", w |-> W(w)]) /\ UNCHANGED order
  \/ /\ Greedy => /\ spawned \ (running \cup done) = {}
                  /\ (pending = None /\ todo = {} /\ mphase \in {"wait1", "wait2"}) \/ sem = L
     /\ \E w \in Workers : End(w) /\ sched' = Append(sched, [e |-> "end", w |-> W(w)]) /\ UNCHANGED order
GSpec == GInit /\ [][GNext]_gvars

\* pairs of workers that were inside their computation at the same time
EmitInv == (mphase = "done") =>
  PrintT(ToJson([tag |-> "case", ntables |-> NTables, rows |-> RowOrder, cols |-> ColOrder,
                 sparse |-> SparseTable1, sched |-> sched, order |-> order]))
=============================================================================
