SPECIFICATION GSpec
CONSTANTS
  NTables = 2
  Rows = {"r1", "r2", "r3"}
  Cols = {"c1", "c2", "c3"}
  SparseTable1 = TRUE
  L = 18
  NoBarrier1 = FALSE
  Greedy = FALSE
INVARIANTS EmitInv RaceFree BarrierRespected
CHECK_DEADLOCK FALSE
