SPECIFICATION GSpec
CONSTANTS
  NTables = 2
  Rows = {"r1", "r2"}
  Cols = {"c1", "c2"}
  SparseTable1 = TRUE
  L = 8
  NoBarrier1 = FALSE
  Greedy = TRUE
INVARIANTS EmitInv RaceFree BarrierRespected
CHECK_DEADLOCK FALSE
