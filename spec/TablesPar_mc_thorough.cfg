SPECIFICATION Spec
CONSTANTS
  NTables = 1
  Rows = {"r1", "r2", "r3"}
  Cols = {"c1", "c2", "c3"}
  SparseTable1 = TRUE
  L = 4
  NoBarrier1 = FALSE
INVARIANTS TypeOK RaceFree BarrierRespected SemBound Deterministic
PROPERTY Termination
