SPECIFICATION Spec
CONSTANTS
  NTables = 2
  Rows = {"r1", "r2"}
  Cols = {"c1", "c2"}
  SparseTable1 = TRUE
  L = 2
  NoBarrier1 = FALSE
INVARIANTS SameVerdicts
PROPERTIES DynSafety
CHECK_DEADLOCK FALSE
