---------------------------- MODULE TablesPar_refines ----------------------------
(* TablesPar (shape given by constants) implements TablesParDyn (shape in the      *)
(* state): rows and columns are numbered by RowOrder / ColOrder, a column worker   *)
(* <<"col", t, "-", c>> is <<"col", t, 0, c>> there.  TLC checks                   *)
(*     Spec => DynInit /\ [][DynNext]_dynvars                                      *)
(* so everything established for TablesParDyn's traces is about the same design    *)
(* that C15's model checking explores.                                             *)
EXTENDS TablesPar

RowNo(r) == CHOOSE i \in 1..Cardinality(Rows) : RowOrder[i] = r
ColNo(c) == CHOOSE i \in 1..Cardinality(Cols) : ColOrder[i] = c

MapW(w) == IF w = None THEN None
           ELSE IF w[1] = "cell" THEN <<"cell", w[2], RowNo(w[3]), ColNo(w[4])>> ELSE <<"col", w[2], 0, ColNo(w[4])>>
MapLoc(x) == IF x[1] \in {"sample", "summary", "baseline"} THEN <<x[1], x[2], RowNo(x[3]), ColNo(x[4])>>
             ELSE IF x[1] = "colsummary" THEN <<x[1], x[2], ColNo(x[3])>> ELSE x

ConstShape ==
  [nt |-> NTables,
   cells |-> {<<w[2], RowNo(w[3]), ColNo(w[4])>> : w \in CellWorkers},
   cols |-> {<<t, ColNo(c)>> : t \in Tables, c \in Cols},
   base |-> [t \in Tables |-> 1],
   samples |-> {MapLoc(x) : x \in InitialWritten}]

Dyn == INSTANCE TablesParDyn WITH
         shape <- ConstShape,
         todo <- {MapW(w) : w \in todo},
         pending <- MapW(pending),
         spawned <- {MapW(w) : w \in spawned},
         running <- {MapW(w) : w \in running},
         done <- {MapW(w) : w \in done},
         written <- {MapLoc(x) : x \in written},
         mainw <- {MapLoc(x) : x \in mainw}

DynSafety == Dyn!InitFor(ConstShape) /\ [][Dyn!Next]_(Dyn!vars)
\* the invariants carry over in both directions
SameVerdicts == /\ (RaceFree <=> Dyn!RaceFree)
                /\ (BarrierRespected <=> Dyn!BarrierRespected)
                /\ (SemBound <=> Dyn!SemBound)
                /\ (Deterministic <=> Dyn!Deterministic)
=============================================================================
