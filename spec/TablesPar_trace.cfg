SPECIFICATION TSpec
CONSTANTS
  NTables = 2
  Rows = {"r1", "r2", "r3"}
  Cols = {"c1", "c2", "c3"}
  SparseTable1 = TRUE
  L = 1000
  NoBarrier1 = FALSE
INVARIANTS RaceFree BarrierRespected RunBound
CONSTRAINT HW
POSTCONDITION Post
CHECK_DEADLOCK FALSE
