----------------------------- MODULE TablesPar_trace -----------------------------
(* Trace validation (mode T) for TablesPar: hook events recorded from real runs of *)
(* Builder.ToTables (no schedule imposed, several GOMAXPROCS values) must be a     *)
(* behaviour of the specification.  Events, in the order of the hook's lock:       *)
(*   reset{limit}   new run, limit = 2*GOMAXPROCS                                  *)
(*   table          main created the next table                                    *)
(*   cell.spawn / col.spawn   main is about to acquire a slot and start worker w   *)
(*   cell.begin / cell.end / col.begin / col.end   inside worker w                 *)
(*   barrier1 / barrier2      main passed the wait group                           *)
(* Acquiring the slot (MainSpawn) and moving to the next table (MainAdvance) are   *)
(* not logged: they are silent steps of the trace specification.  The semaphore    *)
(* constant is set out of the way (L large); the logged limit bounds the workers   *)
(* inside their computation instead (RunBound).                                    *)
EXTENDS TablesPar, Json, Integers

TraceLog == ndJsonDeserialize("trace.ndjson")
VARIABLES l, lim
tvars == <<vars, l, lim>>

Ev == TraceLog[l]
WOf(e) == <<e.w.kind, e.w.t, e.w.r, e.w.c>>

TInit == Init /\ l = 1 /\ lim = 0

Consume == l' = l + 1 /\ UNCHANGED lim

TReset ==
  /\ l <= Len(TraceLog) /\ Ev.ev = "reset"
  /\ (l = 1 \/ mphase = "done")
  /\ mt' = 1 /\ mphase' = "cells" /\ todo' = {w \in CellWorkers : w[2] = 1}
  /\ pending' = None /\ sem' = 0 /\ spawned' = {} /\ running' = {} /\ done' = {}
  /\ written' = InitialWritten /\ mainw' = {}
  /\ l' = l + 1 /\ lim' = Ev.limit

TTable ==
  /\ l <= Len(TraceLog) /\ Ev.ev = "table"
  /\ mphase = "cells" /\ mt = Ev.w.t /\ pending = None
  /\ todo = {w \in CellWorkers : w[2] = mt}
  /\ Consume /\ UNCHANGED vars

TSpawn ==
  /\ l <= Len(TraceLog) /\ Ev.ev \in {"cell.spawn", "col.spawn"}
  /\ mphase \in {"cells", "cols"} /\ pending = None /\ WOf(Ev) \in todo
  /\ mt = Ev.w.t
  /\ pending' = WOf(Ev) /\ todo' = todo \ {WOf(Ev)}
  /\ mainw' = IF Ev.w.kind = "cell" THEN {BaseLink(Ev.w.t, Ev.w.r, Ev.w.c)} ELSE {SumMap(Ev.w.t)}
  /\ written' = written \cup mainw'
  /\ Consume /\ UNCHANGED <<mt, mphase, sem, spawned, running, done>>

TBegin == /\ l <= Len(TraceLog) /\ Ev.ev \in {"cell.begin", "col.begin"}
          /\ Begin(WOf(Ev)) /\ Consume
TEnd ==   /\ l <= Len(TraceLog) /\ Ev.ev \in {"cell.end", "col.end"}
          /\ End(WOf(Ev)) /\ Consume
TBarrier1 == /\ l <= Len(TraceLog) /\ Ev.ev = "barrier1" /\ MainWait1 /\ Consume
TBarrier2 == /\ l <= Len(TraceLog) /\ Ev.ev = "barrier2" /\ MainWait2 /\ Consume
Silent == (MainSpawn \/ MainAdvance) /\ UNCHANGED <<l, lim>>

TNext == TReset \/ TTable \/ TSpawn \/ TBegin \/ TEnd \/ TBarrier1 \/ TBarrier2 \/ Silent
TSpec == TInit /\ [][TNext]_tvars

RunBound == lim > 0 => Cardinality(running) <= lim

HW == IF l > TLCGet(1) THEN TLCSet(1, l) ELSE TRUE
Post == PrintT("TRACE hwm=" \o ToString(TLCGet(1) - 1) \o " len=" \o ToString(Len(TraceLog)))
ASSUME TLCSet(1, 0)
=============================================================================
