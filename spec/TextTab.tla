------------------------------- MODULE TextTab -------------------------------
(* Fixed-width table layout of cmd/benchstat/internal/texttab (property C16).      *)
(*                                                                                 *)
(* STATE + ACTIONS: the table under construction, built through the calls of       *)
(* texttab.Table's API.  One action                                                *)
(*     AddCell(nr, gap, span, w, mk, al)                                           *)
(* stands for   Row() nr times ; Col(cur+gap) ; Span(span, <content of w          *)
(* characters>, <alignment al>, <LeftMargin of kind mk>)   - every reachable state *)
(* is a table a caller can build, and every such table (within the constants) is   *)
(* reachable.  `shrink` is the set of columns marked by SetShrink; Format reads    *)
(* the marks only at the end, so SetShrinks (all marks at once) is modelled as the *)
(* last call, and only columns under a multi-column cell are marked (the marks of  *)
(* other columns are never consulted).                                             *)
(*                                                                                 *)
(* OPERATIONAL part: a transcription of Table.Format (table.go:129-287):           *)
(*   LMOf       per column the widest left margin of the cells starting there      *)
(*   OpWs       column widths: span-1 cells first, then the wider cells by         *)
(*              increasing span (stable); a cell whose columns are too narrow      *)
(*              spreads the missing width over its NON-shrink columns, widest      *)
(*              first, each getting at least the ceiling of the remaining average  *)
(*   Emit       row emission: cells whose content and margin are blank are         *)
(*              skipped, the others are spaced to their column offset, get their   *)
(*              margin right-aligned in the column's margin width and their        *)
(*              content padded on the left according to the alignment.  fmt's      *)
(*              treatment of a negative width (pad on the right to the absolute    *)
(*              value) and Go's truncating division are transcribed as they are.   *)
(*                                                                                 *)
(* DECLARATIVE part (the property statement): ReqFails(cs, O, offs) is the set of  *)
(* layout requirements that the observed character positions O of the cells cs     *)
(* violate for column offsets offs:                                                *)
(*   mono     offsets start at >= 0 and never decrease                             *)
(*   dropped  a cell with content (or a non-blank margin) is not printed, or not   *)
(*            on the line of its row                                               *)
(*   trunc    fewer/more characters of the content than the cell has               *)
(*   fit      margin + content leave [off[col], off[col+span])  (overlap with the  *)
(*            neighbouring columns on some line)                                   *)
(*   start    a left-aligned cell does not start at its column's content offset    *)
(*            (every logical column starts at the same offset on every line)       *)
(*   end      a right-aligned cell does not end at off[col+span]                   *)
(*   margin   a non-blank margin is not flush against the column's content offset  *)
(*   overlap  two cells of one line overlap or are out of order                    *)
(*   trail    a line continues (with blanks) after its last visible character      *)
(*   lines    number of lines                                                      *)
(* The statement says "there are offsets such that ...": DeclFails(cs, O) uses the *)
(* least offsets compatible with the observations (Witness), so it can judge       *)
(* positions measured on real output without knowing the code's widths.            *)
(*                                                                                 *)
(* Invariants: the operational layout meets the requirements, for its own offsets  *)
(* and for the witness.  Domain: tables in which every multi-column cell covers at *)
(* least one non-shrink column (AllShrinkSpans = FALSE).  With AllShrinkSpans =    *)
(* TRUE (TextTab_asbuilt.cfg) TLC shows what happens otherwise: nothing may grow,  *)
(* the cell overflows its columns and pushes the rest of ITS line to the right     *)
(* (requirements fit/start/margin fail).  StarvedSpanFix = TRUE is the repaired    *)
(* algorithm (grow the last column of such a cell); TextTab_fixed.cfg checks it.   *)
(*                                                                                 *)
(* Domain notes (behaviour of the code that the statement does not forbid):        *)
(*  - contents are non-blank and have no leading/trailing blanks; a cell whose     *)
(*    content and margin are blank is not printed at all, so trailing rows made    *)
(*    of such cells produce no line, and Row() before the first cell is a no-op    *)
(*  - a margin-only cell whose margin text ends in a blank and that is last on     *)
(*    its line leaves that blank (margins are printed verbatim): requirement       *)
(*    "trail" exempts such lines (LastCellOK)                                      *)
(*  - model tables have <= 12 cells: sort.Slice is then a stable insertion sort;   *)
(*    beyond that the processing order of equal-span cells is unspecified          *)
(*  - width = number of characters (runes), which is what the code counts          *)
EXTENDS Integers, Sequences, FiniteSets, TLC, SequencesExt

CONSTANTS
  MaxRows, MaxCols,
  Widths,          \* content widths, in characters
  Spans,
  MarginKinds,     \* subset of {"def", "b2", "r2", "r3"}
  Aligns,          \* subset of {"L", "C", "R"}
  FreeAlign,       \* TRUE: any alignment per cell; FALSE: alignment rotates with row+col
  ShrinkCols,      \* columns that may be shrink columns
  AllShrinkSpans,  \* domain switch (see above)
  StarvedSpanFix   \* FALSE = the code as it is

VARIABLES cells, shrink
vars == <<cells, shrink>>

-----------------------------------------------------------------------------
\* arithmetic helpers

Max2(a, b) == IF a >= b THEN a ELSE b
Abs(a) == IF a >= 0 THEN a ELSE -a
GoDiv(a, b) == IF a >= 0 THEN a \div b ELSE -((-a) \div b)   \* Go's / truncates toward zero
SetMax(S) == CHOOSE x \in S : \A y \in S : y <= x
SetMin(S) == CHOOSE x \in S : \A y \in S : y >= x

-----------------------------------------------------------------------------
\* cells.  A left margin is  ml blanks, then (if mr) a rule of mw-ml-mt visible
\* characters, then mt blanks; mw is its total width.

Mg(mk, col, w) ==
  CASE mk = "def" -> IF col = 0 \/ w = 0 THEN [mw |-> 0, ml |-> 0, mt |-> 0, mr |-> FALSE]   \* ""
                                         ELSE [mw |-> 1, ml |-> 1, mt |-> 0, mr |-> FALSE]   \* " "
    [] mk = "b2"  -> [mw |-> 2, ml |-> 2, mt |-> 0, mr |-> FALSE]                            \* "  "
    [] mk = "r2"  -> [mw |-> 2, ml |-> 1, mt |-> 0, mr |-> TRUE]                             \* " |"
    [] mk = "r3"  -> [mw |-> 3, ml |-> 1, mt |-> 1, mr |-> TRUE]                             \* " | "

MkCell(r, c, sp, w, mk, al) ==
  LET m == Mg(mk, c, w) IN
  [row |-> r, col |-> c, span |-> sp, w |-> w, mk |-> mk,
   mw |-> m.mw, ml |-> m.ml, mt |-> m.mt, mr |-> m.mr, al |-> al]

\* Format skips a cell when content and margin are blank (contents are non-blank
\* whenever they are non-empty: domain)
Printed(x) == x.w > 0 \/ x.mr

NColsOf(cs) == SetMax({0} \cup {cs[i].col + cs[i].span : i \in DOMAIN cs})

\* (TLCEval: TLC would otherwise re-evaluate the function body at every application)
LMOf(cs) == TLCEval([c \in 0..(NColsOf(cs) - 1) |->
               SetMax({0} \cup {cs[i].mw : i \in {j \in DOMAIN cs : cs[j].col = c}})])

Starved(x, sh) == x.span > 1 /\ \A k \in x.col..(x.col + x.span - 1) : k \in sh
InDomain(cs, sh) == AllShrinkSpans \/ \A i \in DOMAIN cs : ~Starved(cs[i], sh)

-----------------------------------------------------------------------------
\* OPERATIONAL: column widths (table.go:137-208)

SumOver(ws, a, b) ==          \* ws[a] + ... + ws[b]
  LET f[k \in (a-1)..b] == IF k = a - 1 THEN 0 ELSE f[k-1] + ws[k] IN f[b]

SumCols(ws, S) ==
  LET RECURSIVE g(_)
      g(T) == IF T = {} THEN 0 ELSE LET c == CHOOSE c \in T : TRUE IN ws[c] + g(T \ {c})
  IN g(S)

\* sort.Slice(spanCols, ws[i] > ws[j]) on <= 12 elements is an insertion sort: stable
RECURSIVE SortDesc(_, _)
SortDesc(S, ws) ==
  IF S = {} THEN <<>> ELSE
  LET m == CHOOSE c \in S : \A d \in S : ws[c] > ws[d] \/ (ws[c] = ws[d] /\ c <= d)
  IN <<m>> \o SortDesc(S \ {m}, ws)

RECURSIVE Spread(_, _, _)
Spread(ws, ord, w) ==
  IF ord = <<>> THEN ws ELSE
  LET c   == Head(ord)
      n   == Len(ord)
      avg == GoDiv(w + n - 1, n)
      nw  == Max2(ws[c], avg)
  IN Spread([ws EXCEPT ![c] = nw], Tail(ord), w - nw)

Grow(ws, x, lm, sh) ==
  LET cols    == x.col..(x.col + x.span - 1)
      need    == x.w + lm[x.col]
      last    == x.col + x.span - 1
      stretch0 == {c \in cols : c \notin sh}
      stretch == IF stretch0 = {} /\ StarvedSpanFix THEN {last} ELSE stretch0
  IN IF SumOver(ws, x.col, last) >= need THEN ws
     ELSE Spread(ws, SortDesc(stretch, ws), need - SumCols(ws, cols \ stretch))

\* cells by increasing span; sort.Slice on <= 12 cells is stable, so cells of equal
\* span keep their insertion (row-major) order
SpanOrderX(cs, n) ==
  LET idx == [i \in 1..Len(cs) |-> i]
      f[s \in 1..Max2(n, 1)] ==
        IF s = 1 THEN <<>> ELSE f[s-1] \o SelectSeq(idx, LAMBDA i : cs[i].span = s)
  IN f[Max2(n, 1)]

NaturalWsX(cs, n, lm) ==
  TLCEval([c \in 0..(n - 1) |->
     SetMax({0} \cup {cs[i].w + lm[c] : i \in {j \in DOMAIN cs : cs[j].col = c /\ cs[j].span = 1}})])

OpWsX(cs, sh, n, lm) ==
  LET ord == SpanOrderX(cs, n)
      f[k \in 0..Len(ord)] == IF k = 0 THEN NaturalWsX(cs, n, lm) ELSE Grow(f[k-1], cs[ord[k]], lm, sh)
  IN f[Len(ord)]

NaturalWs(cs) == NaturalWsX(cs, NColsOf(cs), LMOf(cs))
OpWs(cs, sh) == OpWsX(cs, sh, NColsOf(cs), LMOf(cs))

OffsOf(ws, n) ==
  LET g[c \in 0..n] == IF c = 0 THEN 0 ELSE g[c-1] + ws[c-1] IN TLCEval([c \in 0..n |-> g[c]])

-----------------------------------------------------------------------------
\* OPERATIONAL: emission (table.go:236-287).  `off` is the code's variable, `pos` the
\* real position in the line; they differ only after a negative `spaces`.

NotPrinted == [p |-> FALSE, line |-> -1, g |-> -1, s |-> -1, e |-> -1]

Emit(cs, offs, lm) ==
  LET f[k \in 0..Len(cs)] ==
        IF k = 0 THEN [row |-> 0, off |-> 0, pos |-> 0, vis |-> 0, out |-> <<>>, lines |-> <<>>]
        ELSE
        LET st == f[k-1]
            x  == cs[k]
        IN IF ~Printed(x) THEN [st EXCEPT !.out = Append(@, NotPrinted)]
           ELSE
           LET newrow == x.row > st.row
               lines1 == IF newrow
                         THEN st.lines \o <<<<st.pos, st.vis>>>> \o [j \in 1..(x.row - st.row - 1) |-> <<0, 0>>]
                         ELSE st.lines
               off0   == IF newrow THEN 0 ELSE st.off
               pos0   == IF newrow THEN 0 ELSE st.pos
               spaces == offs[x.col] - off0
               ms     == pos0 + Abs(spaces) + (lm[x.col] - x.mw)     \* the cell's own margin text
               a      == pos0 + Abs(spaces) + lm[x.col]              \* where the content field starts
               tw     == offs[x.col + x.span] - offs[x.col] - lm[x.col]
               lead   == CASE x.al = "L" -> 0
                           [] x.al = "C" -> Abs(GoDiv(tw - x.w, 2))
                           [] x.al = "R" -> IF tw >= 0 THEN Max2(tw - x.w, 0) ELSE 0
               trail  == IF x.al = "R" /\ tw < 0 THEN Max2(-tw - x.w, 0) ELSE 0
               s      == a + lead
               e      == s + x.w
               vis1   == IF x.w > 0 THEN e ELSE ms + x.mw - x.mt
           IN [row |-> x.row,
               off |-> off0 + spaces + lm[x.col] + lead + x.w + trail,
               pos |-> e + trail,
               vis |-> vis1,
               out |-> Append(st.out, [p |-> TRUE, line |-> x.row,
                                       g |-> IF x.mr THEN ms + x.ml ELSE -1, s |-> s, e |-> e]),
               lines |-> lines1]
      fin == f[Len(cs)]
  IN [cells |-> fin.out,
      lines |-> IF cs = <<>> THEN <<>> ELSE fin.lines \o <<<<fin.pos, fin.vis>>>>]

OpLayoutX(cs, sh, n, lm) ==
  LET ws   == OpWsX(cs, sh, n, lm)
      offs == OffsOf(ws, n)
  IN [ws |-> ws, offs |-> offs, obs |-> Emit(cs, offs, lm)]

OpLayout(cs, sh) == OpLayoutX(cs, sh, NColsOf(cs), LMOf(cs))

-----------------------------------------------------------------------------
\* DECLARATIVE: the layout requirements of the property statement.
\* cs: cells (records with row, col, span, w, mw, ml, mt, mr, al) in row-major order;
\* O.cells[i] = [p, line, g, s, e]: printed?, line, position of the margin rule,
\* start and end of the content;  O.lines[k] = <<length, end of last visible char>>.

Tag(cond, name) == IF cond THEN {name} ELSE {}

ExpectedLines(cs) ==
  IF cs = <<>> THEN 0
  ELSE SetMax({0} \cup {cs[i].row : i \in {j \in DOMAIN cs : Printed(cs[j])}}) + 1

\* a margin-only cell whose margin text ends in a blank, placed last on its line,
\* leaves that blank: the caller asked for it (margins are printed verbatim)
LastCellOK(cs, k) ==
  LET I == {i \in DOMAIN cs : Printed(cs[i]) /\ cs[i].row = k} IN
  I = {} \/ LET i == SetMax(I) IN ~(cs[i].w = 0 /\ cs[i].mt > 0)

ReqFailsX(cs, O, offs, n, lm) ==
  LET P  == {i \in DOMAIN cs : Printed(cs[i])}
      A(i) == offs[cs[i].col] + lm[cs[i].col]        \* content offset of the cell's first column
      B(i) == offs[cs[i].col + cs[i].span]           \* end of its last column
      OK(i) == O.cells[i].p /\ O.cells[i].line = cs[i].row
      Q  == {i \in P : OK(i)}
      QS == SelectSeq([i \in 1..Len(cs) |-> i], LAMBDA i : i \in Q)    \* cells are in row-major order
      left(i)  == IF cs[i].mr THEN O.cells[i].g ELSE O.cells[i].s       \* first visible char
      right(i) == IF cs[i].w > 0 THEN O.cells[i].e ELSE O.cells[i].g + (cs[i].mw - cs[i].ml - cs[i].mt)
  IN  Tag(~(offs[0] >= 0 /\ \A c \in 1..n : offs[c] >= offs[c-1]), "mono")
 \cup Tag(\E i \in P : ~OK(i), "dropped")
 \cup Tag(\E i \in Q : O.cells[i].e - O.cells[i].s # cs[i].w, "trunc")
 \cup Tag(\E i \in Q : cs[i].w > 0 /\ (O.cells[i].s < A(i) \/ O.cells[i].e > B(i)), "fit")
 \cup Tag(\E i \in Q : cs[i].w > 0 /\ cs[i].al = "L" /\ O.cells[i].s # A(i), "start")
 \cup Tag(\E i \in Q : cs[i].w > 0 /\ cs[i].al = "R" /\ O.cells[i].e # B(i), "end")
 \cup Tag(\E i \in Q : cs[i].mr /\ O.cells[i].g # A(i) - cs[i].mw + cs[i].ml, "margin")
 \cup Tag(\E k \in 1..(Len(QS) - 1) : cs[QS[k]].row = cs[QS[k+1]].row /\ right(QS[k]) > left(QS[k+1]), "overlap")
 \cup Tag(Len(O.lines) # ExpectedLines(cs), "lines")
 \cup Tag(\E k \in 1..Len(O.lines) : LastCellOK(cs, k - 1) /\ O.lines[k][1] # O.lines[k][2], "trail")

\* least offsets compatible with the observations: a boundary is pinned by a
\* left-aligned cell or a non-blank margin starting there and by a right-aligned cell
\* ending there; otherwise it is as far left as the cells ending there allow.
\* All constraints on unpinned boundaries are lower bounds, so if any offsets
\* satisfy the requirements, these do.
WitnessX(cs, O, n, lm) ==
  LET Q  == {i \in DOMAIN cs : Printed(cs[i]) /\ O.cells[i].p}
      SC == TLCEval([c \in 0..n |-> {j \in Q : cs[j].col = c}])                  \* cells starting at boundary c
      EC == TLCEval([c \in 0..n |-> {j \in Q : cs[j].col + cs[j].span = c}])     \* cells ending there
      Pins(c) ==
             {O.cells[i].s - lm[c] : i \in {j \in SC[c] : cs[j].al = "L" /\ cs[j].w > 0}}
        \cup {O.cells[i].g - cs[i].ml + cs[i].mw - lm[c] : i \in {j \in SC[c] : cs[j].mr}}
        \cup {O.cells[i].e : i \in {j \in EC[c] : cs[j].al = "R" /\ cs[j].w > 0}}
      \* one boundary per step, left to right; acc[c+1] is the offset of boundary c.
      \* (FoldLeft iterates in Java: no recursion depth proportional to the table width)
      Step(acc, k) ==
        LET pins == Pins(k)
            E    == EC[k]
            v    == IF pins # {} THEN SetMin(pins)
                    ELSE IF k = 0 THEN 0
                    ELSE SetMax({acc[k]} \cup {O.cells[i].e : i \in E}
                                         \cup {acc[cs[i].col + 1] + lm[cs[i].col] + cs[i].w : i \in E})
        IN Append(acc, v)
      seq == FoldLeft(Step, <<>>, [k \in 1..(n + 1) |-> k - 1])
  IN TLCEval([c \in 0..n |-> seq[c + 1]])

ReqFails(cs, O, offs) == ReqFailsX(cs, O, offs, NColsOf(cs), LMOf(cs))
Witness(cs, O) == WitnessX(cs, O, NColsOf(cs), LMOf(cs))
DeclFails(cs, O) ==
  LET n == NColsOf(cs) lm == LMOf(cs) IN ReqFailsX(cs, O, WitnessX(cs, O, n, lm), n, lm)

-----------------------------------------------------------------------------
\* the API as actions

Init == cells = <<>> /\ shrink = {}

\* columns under some multi-column cell: the only ones whose mark Format consults
Covered(cs) == UNION {cs[i].col..(cs[i].col + cs[i].span - 1) : i \in {j \in DOMAIN cs : cs[j].span > 1}}

AlignSeq == <<"L", "R", "C">>
AlignChoices(r, c, w) ==
  IF w = 0 THEN {"L"}
  ELSE IF FreeAlign THEN Aligns
  ELSE LET a == AlignSeq[((r + c) % 3) + 1] IN IF a \in Aligns THEN {a} ELSE {"L"}

AddCell(nr, gap, sp, w, mk) ==
  LET last == cells[Len(cells)]
      r == IF cells = <<>> THEN 0 ELSE last.row + nr
      c == IF cells = <<>> \/ nr > 0 THEN gap ELSE last.col + last.span + gap
  IN /\ shrink = {}
     /\ (cells = <<>> => nr = 0)
     /\ r < MaxRows
     /\ c + sp <= MaxCols
     /\ (w = 0 => mk \in {"def", "r2", "r3"})          \* a blank margin on an empty cell prints nothing
     /\ \E al \in AlignChoices(r, c, w) : cells' = Append(cells, MkCell(r, c, sp, w, mk, al))
     /\ UNCHANGED shrink

SetShrinks(sh) ==
  /\ shrink = {} /\ sh # {}
  /\ InDomain(cells, sh)
  /\ shrink' = sh
  /\ UNCHANGED cells

Next == \/ \E nr \in 0..(MaxRows - 1), gap \in 0..(MaxCols - 1), sp \in Spans, w \in Widths, mk \in MarginKinds :
             AddCell(nr, gap, sp, w, mk)
        \/ \E sh \in SUBSET (Covered(cells) \cap ShrinkCols) : SetShrinks(sh)

Spec == Init /\ [][Next]_vars

-----------------------------------------------------------------------------
\* properties

TypeOK ==
  /\ shrink \subseteq ShrinkCols
  /\ \A i \in DOMAIN cells : /\ cells[i].row \in 0..(MaxRows - 1)
                             /\ cells[i].col + cells[i].span <= MaxCols
                             /\ (i > 1 => \/ cells[i].row > cells[i-1].row
                                          \/ /\ cells[i].row = cells[i-1].row
                                             /\ cells[i].col >= cells[i-1].col + cells[i-1].span)

\* C16, layout half: what Format does satisfies what the statement demands - for the
\* code's own offsets and for the offsets reconstructed from the observations alone.
\* Supporting lemmas about the model (not demanded by the statement): a shrink column
\* keeps its natural width; centred content is balanced (left gap <= right gap <= left gap + 1).
LemmasOf(lay, n, lm) ==
  AllShrinkSpans \/
    LET nat == NaturalWsX(cells, n, lm)
    IN /\ \A c \in DOMAIN lay.ws : c \in shrink => lay.ws[c] = nat[c]
       /\ \A i \in DOMAIN cells :
            (Printed(cells[i]) /\ cells[i].al = "C" /\ cells[i].w > 0) =>
              LET lg == lay.obs.cells[i].s - (lay.offs[cells[i].col] + lm[cells[i].col])
                  rg == lay.offs[cells[i].col + cells[i].span] - lay.obs.cells[i].e
              IN lg <= rg /\ rg <= lg + 1

LayoutOKOf(lay, n, lm) ==
  /\ ReqFailsX(cells, lay.obs, lay.offs, n, lm) = {}
  /\ ReqFailsX(cells, lay.obs, WitnessX(cells, lay.obs, n, lm), n, lm) = {}
  /\ LemmasOf(lay, n, lm)

LayoutOK ==
  LET n   == NColsOf(cells)
      lm  == LMOf(cells)
  IN LayoutOKOf(OpLayoutX(cells, shrink, n, lm), n, lm)

=============================================================================
