------------------------------ MODULE TextTab_gen ------------------------------
(* Generator wrapper (mode G) for TextTab: the same exploration (every table a    *)
(* caller can build within the constants, or random ones under -simulate), with   *)
(* the invariant LayoutOK still checked, prints one replay case per table:        *)
(*   cells   [row, col, span, w, margin kind, alignment] in the order of the API  *)
(*           calls, shrink the marked columns                                      *)
(*   expect  what the specification's layout shows for it: column offsets, per    *)
(*           cell [printed, line, position of the margin rule, content start,     *)
(*           content end], per line [length, end of the last visible character]   *)
(* The layout printed has been checked against the declarative requirements by    *)
(* TLC in the same run (LayoutOK), so "the real Format shows exactly this" implies *)
(* the requirements for the real output.                                          *)
EXTENDS TextTab, Json

B(b) == IF b THEN 1 ELSE 0

CaseOf(lay, n) ==
  [tag    |-> "case", kind |-> "table",
   cells  |-> [i \in DOMAIN cells |-> <<cells[i].row, cells[i].col, cells[i].span, cells[i].w, cells[i].mk, cells[i].al>>],
   shrink |-> [c \in 1..MaxCols |-> B((c - 1) \in shrink)],
   offs   |-> [c \in 1..(n + 1) |-> lay.offs[c - 1]],
   obs    |-> [i \in DOMAIN cells |-> <<B(lay.obs.cells[i].p), lay.obs.cells[i].line, lay.obs.cells[i].g,
                                       lay.obs.cells[i].s, lay.obs.cells[i].e>>],
   lines  |-> lay.obs.lines]

\* checked as an invariant: the layout meets the requirements (LayoutOK), and the
\* case is printed (PrintT is TRUE)
EmitCase ==
  cells = <<>> \/
    LET n   == NColsOf(cells)
        lm  == LMOf(cells)
        lay == OpLayoutX(cells, shrink, n, lm)
    IN LayoutOKOf(lay, n, lm) /\ PrintT(ToJson(CaseOf(lay, n)))
=============================================================================
