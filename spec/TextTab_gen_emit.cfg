SPECIFICATION Spec
CONSTANTS
  MaxRows = 2
  MaxCols = 2
  Widths = {0, 2}
  Spans = {1, 2}
  MarginKinds = {"def", "r3"}
  Aligns = {"L", "R"}
  FreeAlign = TRUE
  ShrinkCols = {0, 1, 2, 3}
  AllShrinkSpans = FALSE
  StarvedSpanFix = FALSE
INVARIANTS EmitCase
CHECK_DEADLOCK FALSE
