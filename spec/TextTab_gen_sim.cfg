SPECIFICATION Spec
CONSTANTS
  MaxRows = 3
  MaxCols = 4
  Widths = {0, 1, 2, 3}
  Spans = {1, 2, 3}
  MarginKinds = {"def", "b2", "r2", "r3"}
  Aligns = {"L", "C", "R"}
  FreeAlign = TRUE
  ShrinkCols = {0, 1, 2, 3}
  AllShrinkSpans = FALSE
  StarvedSpanFix = FALSE
INVARIANTS EmitCase
CHECK_DEADLOCK FALSE
