SPECIFICATION Spec
CONSTANTS
  MaxRows = 2
  MaxCols = 3
  Widths = {0, 1, 3}
  Spans = {1, 2, 3}
  MarginKinds = {"def", "r3"}
  Aligns = {"L", "C", "R"}
  FreeAlign = FALSE
  ShrinkCols = {0, 1, 2, 3}
  AllShrinkSpans = FALSE
  StarvedSpanFix = FALSE
INVARIANTS EmitCase
CHECK_DEADLOCK FALSE
