SPECIFICATION Spec
CONSTANTS
  MaxRows = 3
  MaxCols = 3
  Widths = {0, 2}
  Spans = {1, 2, 3}
  MarginKinds = {"def"}
  Aligns = {"L", "C", "R"}
  FreeAlign = FALSE
  ShrinkCols = {0, 1, 2, 3}
  AllShrinkSpans = FALSE
  StarvedSpanFix = FALSE
INVARIANTS TypeOK LayoutOK
CHECK_DEADLOCK FALSE
