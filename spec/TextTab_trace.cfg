SPECIFICATION TSpec
CONSTANTS
  MaxRows = 0
  MaxCols = 0
  Widths = {}
  Spans = {}
  MarginKinds = {}
  Aligns = {}
  FreeAlign = FALSE
  ShrinkCols = {}
  AllShrinkSpans = FALSE
  StarvedSpanFix = FALSE
CONSTRAINT HW
POSTCONDITION Post
CHECK_DEADLOCK FALSE
