----------------------------- MODULE TextTab_trace -----------------------------
(* Mode T for TextTab, used as a spec-as-oracle evaluator: every event is one    *)
(* table as it was OBSERVED on real output -                                      *)
(*   cells  [row, col, span, w, mw, ml, mt, mr, al,  p, line, g, s, e]            *)
(*          description of the cell (TextTab's cell record: columns, content      *)
(*          width, margin shape, alignment) followed by what was measured         *)
(*          (printed?, line, position of the margin rule, content start / end,    *)
(*          in characters)                                                        *)
(*   lines  [length, end of the last visible character] per line                  *)
(* - either a model table built through texttab.Table's API and formatted by the  *)
(* real Format, or the grid abstracted from a real `benchstat` text table.  The   *)
(* specification's declarative requirements (DeclFails: "there are column offsets *)
(* such that ...") are evaluated on it and the set of failed requirements is      *)
(* printed as a verdict; nothing of the operational model is used.                *)
EXTENDS TextTab, Json

TraceLog == ndJsonDeserialize("trace.ndjson")

VARIABLE l
tvars == <<cells, shrink, l>>

CsOf(ev) == TLCEval([i \in 1..Len(ev.cells) |->
               LET c == ev.cells[i] IN
               [row |-> c[1], col |-> c[2], span |-> c[3], w |-> c[4], mk |-> "",
                mw |-> c[5], ml |-> c[6], mt |-> c[7], mr |-> (c[8] = 1), al |-> c[9]]])
ObsOf(ev) == [cells |-> TLCEval([i \in 1..Len(ev.cells) |->
                           LET c == ev.cells[i] IN
                           [p |-> (c[10] = 1), line |-> c[11], g |-> c[12], s |-> c[13], e |-> c[14]]]),
              lines |-> TLCEval([k \in 1..Len(ev.lines) |-> <<ev.lines[k][1], ev.lines[k][2]>>])]

TInit == cells = <<>> /\ shrink = {} /\ l = 1

Judge ==
  /\ l <= Len(TraceLog)
  /\ LET ev == TraceLog[l]
         fails == DeclFails(CsOf(ev), ObsOf(ev))
     IN PrintT(ToJson([tag |-> "verdict", t |-> ev.t, fails |-> SetToSeq(fails)]))
  /\ l' = l + 1
  /\ UNCHANGED <<cells, shrink>>

TSpec == TInit /\ [][Judge]_tvars

HW == IF l > TLCGet(1) THEN TLCSet(1, l) ELSE TRUE
Post == PrintT("TRACE hwm=" \o ToString(TLCGet(1) - 1) \o " len=" \o ToString(Len(TraceLog)))
ASSUME TLCSet(1, 0)
=============================================================================
