--------------------------------- MODULE Trend ---------------------------------
(* The trend page of the performance dashboard (golang.org/x/perf/analysis/app,     *)
(* trend.go): how the results fetched for a query become the data table of a chart. *)
(*                                                                                  *)
(* One request, structured like trendQuery / queryToTable / plot:                   *)
(*   Add(r)      the storage server delivers the next result; the loop body of      *)
(*               queryToTable appends one row to every column of the table ("each   *)
(*               label is placed in a column named after the key, each metric in    *)
(*               a separate result column named after the unit"); a column that     *)
(*               starts late is padded for the rows before it                       *)
(*   Finish      the answer is exhausted; trendQuery checks that the table has the  *)
(*               columns commit, commit-time, branch, name and the x column          *)
(*   SortX, SortTime   plot sorts by the x column, then (stably) by commit-time      *)
(*   Index       colIndex adds commit-index, "sequentially counting unique values"   *)
(*               of the x column                                                    *)
(*   Points      Unpivot + FilterEq: the ns/op measurements become the points        *)
(*   EmitRaw     raw: "the raw points without any averaging/smoothing"               *)
(*   Agg         "average each result at each commit": one cell per (commit, name,   *)
(*               branch, commit-index) with mean, median, min, max                  *)
(*   Norm        "normalize to earliest commit on master", per benchmark             *)
(*   Geo         "compute geomean ... at each commit if there's more than one        *)
(*               benchmark" - over the benchmarks that have the commit ("it's       *)
(*               important to do this before the geomean if there are commits        *)
(*               missing")                                                          *)
(*   Pivot       aggResults: one chart row per (commit, branch, commit-index), one   *)
(*               column group per benchmark (prefix) in sorted order; tableToJS      *)
(*                                                                                  *)
(* A result is a record: n benchmark name, c commit (its commit-time is TimeOf[c]),  *)
(* br branch ("" = no such label), p upload-part, k the value of one further label   *)
(* "k" that a request may name as its x column ("" = the result has no such label),  *)
(* v its ns/op value (0 = the result has no ns/op measurement), o = it has a         *)
(* measurement of another unit.  The storage server is free: ANY results of the      *)
(* Universe in ANY order, with repetition (two equal results are two points).        *)
(*                                                                                  *)
(* The contract (invariants), from the doc comments and the evident intent:          *)
(*   TableRight    after every Add the table is rectangular, its columns are name +  *)
(*                 the label keys + the units seen so far, a cell holds the          *)
(*                 result's value and "" where the result has no such label          *)
(*   SortRight     the rows are a permutation of the results, ordered by commit-time *)
(*                 and, for equal times, by the x value (order of equal rows free)   *)
(*   IndexRight    rows have the same commit-index iff they have the same x value;   *)
(*                 indices count 0, 1, 2, ... in the order of first appearance       *)
(*   PointsRight   the points are exactly the results with an ns/op measurement,     *)
(*                 each once, with its value                                         *)
(*   NoPanic       every request ends in an error message or a chart                 *)
(*   OutRight      the chart is the one the declarative definitions below give for   *)
(*                 the BAG of fetched results - nothing depends on the order of      *)
(*                 arrival except the order of rows with the same commit-index       *)
(*   ColumnsRight, RowsSorted, GapRight, BaselineIsOne: structure of the line chart  *)
(*                                                                                  *)
(* Named deviations of the code as built (FALSE = documented behaviour):             *)
(*   ZeroFill        a result without ns/op gets the value 0 in the ns/op column     *)
(*                   and is plotted as a point 0 (and averaged in)                   *)
(*   IndexRuns       colIndex counts RUNS of equal x values: a value met again       *)
(*                   after another one gets a second index                          *)
(*   IndexEmptyFirst colIndex compares with "" first: if the first x value is the    *)
(*                   empty string the count starts at -1                             *)
(*   NoUnitPanics    no result has any measurement: Unpivot panics; none has ns/op:  *)
(*                   the non-raw aggregation panics                                  *)
(*   NoMasterPanics  a benchmark without a result on branch master: Normalize        *)
(*                   indexes row -1 and panics                                       *)
(*   ConcatStrict    more than one benchmark: table.Concat of the per-benchmark      *)
(*                   rows and the geomean rows panics when a column is constant      *)
(*                   inside every (commit, name) cell but not inside every commit    *)
(*                   (upload-part, another label, or "result" itself when every      *)
(*                   cell holds one value)                                           *)
(*   GapNaN          a benchmark absent at a commit is NaN in the pivot and          *)
(*                   json.Marshal(NaN) makes tableToJS panic                         *)
(*   RowsNameMajor   the pivot lists rows in order of first appearance benchmark by  *)
(*                   benchmark, not by commit-index (only visible with a gap)        *)
EXTENDS Integers, Sequences, FiniteSets, TLC

CONSTANTS Universe, MaxRes, XOpts, RawOpts,
          NameRanks,      \* benchmark name -> its rank in bytewise order (DefaultNameRanks; traces bring their own)
          ZeroFill, IndexRuns, IndexEmptyFirst, NoUnitPanics, NoMasterPanics, ConcatStrict, GapNaN, RowsNameMajor

VARIABLES opt, phase, fetched, tab, perm, idx, pts, gkeys, base, geo, out, hist
vars == <<opt, phase, fetched, tab, perm, idx, pts, gkeys, base, geo, out>>
View == vars        \* hist (the actions taken) is not part of the state

-----------------------------------------------------------------------------
\* Fixed tables: the order of the symbols as strings (the harness concretises them
\* by strings in the same bytewise order) and the commit-time of every commit.
CRank == "c1" :> 1 @@ "c2" :> 2 @@ "c3" :> 3 @@ "c4" :> 4
TimeOf == "c1" :> "t2" @@ "c2" :> "t1" @@ "c3" :> "t2" @@ "c4" :> "t3"
TRank == "t1" :> 1 @@ "t2" :> 2 @@ "t3" :> 3
KRank == "" :> 0 @@ "a" :> 1 @@ "b" :> 2 @@ "c" :> 3
DefaultNameRanks == "X" :> 1 @@ "Y" :> 2 @@ "Z" :> 3
NRank == NameRanks
BRank == "" :> 0 @@ "dev" :> 1 @@ "master" :> 2
PRank == "p1" :> 1 @@ "p2" :> 2
GEO == "geo"                         \* the geomean series (its name " geomean" sorts first)

SW == [zf |-> ZeroFill, ir |-> IndexRuns, ie |-> IndexEmptyFirst, nu |-> NoUnitPanics,
       nm |-> NoMasterPanics, cs |-> ConcatStrict, gn |-> GapNaN, rn |-> RowsNameMajor, lt |-> FALSE]
Normative == [zf |-> FALSE, ir |-> FALSE, ie |-> FALSE, nu |-> FALSE, nm |-> FALSE, cs |-> FALSE, gn |-> FALSE, rn |-> FALSE, lt |-> FALSE]
AsBuilt   == [zf |-> TRUE, ir |-> TRUE, ie |-> TRUE, nu |-> TRUE, nm |-> TRUE, cs |-> TRUE, gn |-> TRUE, rn |-> TRUE, lt |-> FALSE]
\* lt = "light": the cells of the line chart only say whether they are a gap (used by trace validation,
\* where the values are too large for exact rational arithmetic)

\* universes of results (chosen in the cfg: Universe <- ...)
\* A result carries its labels (lab: key -> value) and measurements (units: unit -> value), the
\* ranks of its commit, commit-time and k value in bytewise order, and for convenience the
\* fields c, t, br, p, k ("" = no such label), v (0 = no ns/op), o.
OtherVal == 7                         \* the value of the measurement in the other unit
Res(n, c, br, p, k, v, o) ==
  [n |-> n, c |-> c, t |-> TimeOf[c], br |-> br, p |-> p, k |-> k, v |-> v, o |-> o,
   cr |-> CRank[c], tr |-> TRank[TimeOf[c]], kr |-> KRank[k],
   lab |-> [key \in {"commit", "commit-time", "upload-part"} \cup (IF br # "" THEN {"branch"} ELSE {}) \cup (IF k # "" THEN {"k"} ELSE {}) |->
             CASE key = "commit" -> c [] key = "commit-time" -> TimeOf[c] [] key = "upload-part" -> p
               [] key = "branch" -> br [] key = "k" -> k],
   units |-> [u \in (IF v > 0 THEN {"ns/op"} ELSE {}) \cup (IF o THEN {"B/op"} ELSE {}) |-> IF u = "ns/op" THEN v ELSE OtherVal]]
\* ordering and indexing: one benchmark, commits whose time order differs from their string order, an x label
\* (the value follows the commit-time, so that commits with the same commit-time have the same baseline)
UOrder == {Res("X", c, "master", "p1", k, TRank[TimeOf[c]], FALSE) : c \in {"c1", "c2", "c3"}, k \in {"", "a", "b", "c"}}
UOrder2 == {Res("X", c, "master", "p1", k, v, FALSE) : c \in {"c1", "c2", "c3", "c4"}, k \in {"", "a", "b"}, v \in {1, 2}}
\* which results become points: with and without ns/op, with and without another unit
UPoints == {Res("X", c, "master", p, "", v, o) : c \in {"c1", "c2"}, p \in {"p1", "p2"}, v \in {0, 1, 2}, o \in BOOLEAN}
\* aggregation: two benchmarks, a commit off master before the first one on master
BranchOf == "c1" :> "master" @@ "c2" :> "dev" @@ "c3" :> "master" @@ "c4" :> "master"
UAgg == {Res(n, c, BranchOf[c], "p1", "", v, FALSE) : n \in {"X", "Y"}, c \in {"c1", "c2", "c4"}, v \in {1, 2, 3}}
UAgg1 == {Res("X", c, BranchOf[c], "p1", "", v, FALSE) : c \in {"c1", "c2", "c4"}, v \in {1, 2, 3}}
\* columns: upload parts and the further label vary between benchmarks
UCols == {Res(n, c, "master", p, k, v, FALSE) : n \in {"X", "Y"}, c \in {"c1", "c4"}, p \in {"p1", "p2"}, k \in {"", "a"}, v \in {1, 2}}
\* smaller versions for the quick tier
UPointsQ == {Res("X", c, "master", "p1", "", v, o) : c \in {"c1", "c2"}, v \in {0, 1, 2}, o \in BOOLEAN}
UAggQ == {Res(n, c, BranchOf[c], "p1", "", v, FALSE) : n \in {"X", "Y"}, c \in {"c1", "c2", "c4"}, v \in {1, 2}}
UColsQ == {Res(n, "c1", "master", p, k, v, FALSE) : n \in {"X", "Y"}, p \in {"p1", "p2"}, k \in {"", "a"}, v \in {1, 2}}
\* for simulation: everything varies
USim == {Res(n, c, br, p, k, v, o) : n \in {"X", "Y", "Z"}, c \in {"c1", "c2", "c3", "c4"}, br \in {"master", "dev"},
                                    p \in {"p1", "p2"}, k \in {"", "a", "b"}, v \in {0, 1, 2, 3}, o \in BOOLEAN}
USimOne == {Res("X", c, br, p, k, v, o) : c \in {"c1", "c2", "c3", "c4"}, br \in {"master", "dev"},
                                         p \in {"p1", "p2"}, k \in {"", "a", "b", "c"}, v \in {1, 2, 3}, o \in BOOLEAN}
\* a required label missing on some or all results
UBranch == {Res("X", c, br, "p1", "", 2, FALSE) : c \in {"c2"}, br \in {"", "master"}}
           \cup {Res("X", "c4", br, "p1", "", 1, FALSE) : br \in {"", "dev"}}
\* thorough mixtures
UMix == {Res(n, c, BranchOf[c], p, "", v, FALSE) : n \in {"X", "Y"}, c \in {"c1", "c2", "c4"}, p \in {"p1", "p2"}, v \in {0, 1, 2}}
UThree == {Res(n, c, "master", "p1", "", v, FALSE) : n \in {"X", "Y", "Z"}, c \in {"c2", "c4"}, v \in {1, 2}}

-----------------------------------------------------------------------------
\* Small tools
RECURSIVE Nub(_)
Nub(s) == IF s = <<>> THEN <<>>
          ELSE LET r == Nub(SubSeq(s, 1, Len(s) - 1)) IN
               IF \E i \in 1..Len(r) : r[i] = s[Len(s)] THEN r ELSE Append(r, s[Len(s)])
RECURSIVE InsertBy(_, _, _)
InsertBy(s, e, rk) == IF s = <<>> THEN <<e>>
                      ELSE IF rk[e] < rk[Head(s)] THEN <<e>> \o s
                      ELSE <<Head(s)>> \o InsertBy(Tail(s), e, rk)
RECURSIVE StableSort(_, _)     \* s: sequence of elements of DOMAIN rk, rk: element -> integer
StableSort(s, rk) == IF s = <<>> THEN <<>>
                     ELSE InsertBy(StableSort(SubSeq(s, 1, Len(s) - 1), rk), s[Len(s)], rk)
RECURSIVE SumSeq(_)
SumSeq(s) == IF s = <<>> THEN 0 ELSE Head(s) + SumSeq(Tail(s))
RECURSIVE SetAsSeq(_)
SetAsSeq(S) == IF S = {} THEN <<>> ELSE LET x == CHOOSE x \in S : TRUE IN <<x>> \o SetAsSeq(S \ {x})
Range(s) == {s[i] : i \in 1..Len(s)}
Map(s, Op(_)) == [i \in 1..Len(s) |-> Op(s[i])]
MinOf(S) == CHOOSE v \in S : \A u \in S : v <= u
MaxOf(S) == CHOOSE v \in S : \A u \in S : v >= u
\* rationals as <<numerator, denominator>>, not reduced; denominators positive
RatEq(a, b) == a[1] * b[2] = b[1] * a[2]
RatMul(a, b) == <<a[1] * b[1], a[2] * b[2]>>
RECURSIVE RatProd(_)
RatProd(s) == IF s = <<>> THEN <<1, 1>> ELSE RatMul(Head(s), RatProd(Tail(s)))
\* twice the median of a sequence of integers
Med2(s) == LET n == Len(s)
               srt == StableSort([i \in 1..n |-> i], [i \in 1..n |-> s[i]])
           IN IF n % 2 = 1 THEN 2 * s[srt[(n + 1) \div 2]] ELSE s[srt[n \div 2]] + s[srt[n \div 2 + 1]]

-----------------------------------------------------------------------------
\* What a result says
XRk(r, x) == IF x = "" THEN r.cr ELSE r.kr
TRk(r) == r.tr
LabelKeys(r) == DOMAIN r.lab
LabelVal(r, key) == r.lab[key]
Units(r) == DOMAIN r.units
UnitVal(r, u) == r.units[u]

-----------------------------------------------------------------------------
\* queryToTable, one result at a time
EmptyTab == [n |-> 0, names |-> <<>>, lab |-> <<>>, res |-> <<>>]
Absent(sw) == IF sw.zf THEN [has |-> TRUE, v |-> 0] ELSE [has |-> FALSE, v |-> 0]
TabAdd(t, r, sw) ==
  LET lab1 == [key \in DOMAIN t.lab \cup LabelKeys(r) |->
                 IF key \in DOMAIN t.lab THEN t.lab[key] ELSE [i \in 1..t.n |-> ""]]
      lab2 == TLCEval([key \in DOMAIN lab1 |-> Append(lab1[key], IF key \in LabelKeys(r) THEN LabelVal(r, key) ELSE "")])
      res1 == [u \in DOMAIN t.res \cup Units(r) |->
                 IF u \in DOMAIN t.res THEN t.res[u] ELSE [i \in 1..t.n |-> Absent(sw)]]
      res2 == TLCEval([u \in DOMAIN res1 |-> Append(res1[u], IF u \in Units(r) THEN [has |-> TRUE, v |-> UnitVal(r, u)] ELSE Absent(sw))])
  IN [n |-> t.n + 1, names |-> Append(t.names, r.n), lab |-> lab2, res |-> res2]

\* the error trendQuery reports before plotting ("" = none)
RECURSIVE TabOf(_, _)
TabOf(f, sw) == IF f = <<>> THEN EmptyTab ELSE TabAdd(TabOf(SubSeq(f, 1, Len(f) - 1), sw), f[Len(f)], sw)

CheckError(t, x) ==
  IF t.n = 0 \/ "commit" \notin DOMAIN t.lab \/ "commit-time" \notin DOMAIN t.lab \/ "branch" \notin DOMAIN t.lab
  THEN "missing-label"
  ELSE IF x # "" /\ x \notin DOMAIN t.lab THEN "missing-x" ELSE ""

-----------------------------------------------------------------------------
\* plot, operationally (f = fetched, p = row order as indices into f)
Idxs(n) == [i \in 1..n |-> i]
SortXOp(f, x) == StableSort(Idxs(Len(f)), [i \in 1..Len(f) |-> XRk(f[i], x)])
SortTOp(f, p) == StableSort(p, [i \in 1..Len(f) |-> TRk(f[i])])

IndexOp(f, x, p, sw) ==
  LET rk(j) == XRk(f[p[j]], x)
      first(j) == MinOf({i \in 1..j : rk(i) = rk(j)})
      shift == IF sw.ie /\ x # "" /\ Len(p) > 0 /\ rk(1) = 0 THEN 1 ELSE 0
  IN [j \in 1..Len(p) |->
        (IF sw.ir THEN Cardinality({i \in 2..j : rk(i) # rk(i - 1)})
         ELSE Cardinality({rk(i) : i \in 1..(first(j) - 1)})) - shift]

HasNsCol(f) == \E j \in 1..Len(f) : f[j].v > 0
HasAnyUnit(f) == \E j \in 1..Len(f) : Units(f[j]) # {}

\* the rows that survive Unpivot + FilterEq(metric = ns/op), as records
RowAt(f, p, ix, j) == [i |-> ix[j], v |-> f[p[j]].v, c |-> f[p[j]].c, n |-> f[p[j]].n, br |-> f[p[j]].br,
                       p |-> f[p[j]].p, lab |-> f[p[j]].lab]
\* (t = the table: a row is kept iff its ns/op cell holds a value)
PointsFrom(t, f, p, ix) ==
  LET keep == {j \in 1..Len(p) : t.res["ns/op"][p[j]].has}
      pos == StableSort(SetAsSeq(keep), [j \in 1..Len(p) |-> j])
  IN [a \in 1..Len(pos) |-> RowAt(f, p, ix, pos[a])]

RawRow(r) == [i |-> r.i, v |-> r.v, p |-> r.p, c |-> r.c]

RECURSIVE Concat(_)
Concat(ss) == IF ss = <<>> THEN <<>> ELSE Head(ss) \o Concat(Tail(ss))

\* table.GroupBy on several columns groups by the first, then every group by the second, ...:
\* the distinct tuples of s ordered by first appearance of component d, then d+1, ... up to last
RECURSIVE Nest(_, _, _)
Nest(s, d, last) ==
  IF s = <<>> THEN <<>>
  ELSE IF d > last THEN <<s[1]>>
  ELSE LET vals == Nub(Map(s, LAMBDA t : t[d])) IN
       Concat([a \in 1..Len(vals) |-> Nest(SelectSeq(s, LAMBDA t : t[d] = vals[a]), d + 1, last)])

\* cells: one per (commit, name, branch, index), in the order of ggstat.Agg("commit", "name", "metric",
\* "branch", "commit-index")
GKey(r) == <<r.c, r.n, r.br, r.i>>
GKeysOp(ps) == Nest(Map(ps, GKey), 1, 4)
GVals(ps, key) == Map(SelectSeq(ps, LAMBDA r : GKey(r) = key), LAMBDA r : r.v)
NamesOp(gk) == Nub(Map(gk, LAMBDA key : key[2]))
KeysOfName(gk, nm) == SelectSeq(gk, LAMBDA key : key[2] = nm)
NoBase == <<0, 0>>
BaseOp(ps, gk, nm) ==
  LET ms == SelectSeq(KeysOfName(gk, nm), LAMBDA key : key[3] = "master") IN
  IF ms = <<>> THEN NoBase ELSE <<SumSeq(GVals(ps, ms[1])), Len(GVals(ps, ms[1]))>>
RowKeyOf(key) == <<key[1], key[3], key[4]>>
CellKey(rk, nm) == <<rk[1], nm, rk[2], rk[3]>>

\* chart rows: as built in the order of ggstat.Agg("commit", "branch", "commit-index") over the
\* cells listed benchmark by benchmark; documented: along x
RowKeysOp(gk, sw) ==
  LET nms == NamesOp(gk)
      major == Nest(Map(Concat([a \in 1..Len(nms) |-> KeysOfName(gk, nms[a])]), RowKeyOf), 1, 3)
  IN IF sw.rn THEN major
     ELSE LET ord == StableSort(Idxs(Len(major)), [j \in 1..Len(major) |-> major[j][3]]) IN
          [j \in 1..Len(major) |-> major[ord[j]]]

\* a normalised cell of benchmark nm: statistics of its values divided by the mean at the baseline
StatCell(ps, key, b) ==
  LET vs == GVals(ps, key) IN
  [gap |-> FALSE, cnt |-> 1,
   mean |-> <<SumSeq(vs) * b[2], Len(vs) * b[1]>>,
   min |-> <<MinOf(Range(vs)) * b[2], b[1]>>,
   max |-> <<MaxOf(Range(vs)) * b[2], b[1]>>,
   med |-> <<Med2(vs) * b[2], 2 * b[1]>>]
LightCell == [gap |-> FALSE, cnt |-> 1, mean |-> <<1, 1>>, min |-> <<1, 1>>, max |-> <<1, 1>>, med |-> <<1, 1>>]
GapCell == [gap |-> TRUE, cnt |-> 0, mean |-> <<0, 1>>, min |-> <<0, 1>>, max |-> <<0, 1>>, med |-> <<0, 1>>]
HasCell(gk, key) == \E i \in 1..Len(gk) : gk[i] = key

\* the geomean cell at a chart row: (product of the normalised means)^(1/cnt); min of mins, max of maxes
GeoCell(ps, gk, bs, rk) ==
  LET present == SelectSeq(NamesOp(gk), LAMBDA nm : HasCell(gk, CellKey(rk, nm)))
      cells == [a \in 1..Len(present) |-> StatCell(ps, CellKey(rk, present[a]), bs[present[a]])]
      lo == CHOOSE a \in 1..Len(cells) : \A b \in 1..Len(cells) : cells[a].min[1] * cells[b].min[2] <= cells[b].min[1] * cells[a].min[2]
      hi == CHOOSE a \in 1..Len(cells) : \A b \in 1..Len(cells) : cells[a].max[1] * cells[b].max[2] >= cells[b].max[1] * cells[a].max[2]
  IN [gap |-> FALSE, cnt |-> Len(cells), mean |-> RatProd(Map(cells, LAMBDA x : x.mean)),
      min |-> cells[lo].min, max |-> cells[hi].max, med |-> RatProd(Map(cells, LAMBDA x : x.med))]

Multi(gk) == Len(NamesOp(gk)) > 1
PrefixesOp(gk) == LET nms == NamesOp(gk)
                      ord == StableSort(Idxs(Len(nms)), [a \in 1..Len(nms) |-> NRank[nms[a]]])
                      srt == [j \in 1..Len(nms) |-> nms[ord[j]]]
                  IN IF Multi(gk) THEN <<GEO>> \o srt ELSE srt

LineRows(ps, gk, bs, sw) ==
  LET rks == RowKeysOp(gk, sw) IN
  [j \in 1..Len(rks) |->
     [i |-> rks[j][3], c |-> rks[j][1], br |-> rks[j][2],
      cells |-> [pf \in Range(PrefixesOp(gk)) |->
                   IF pf = GEO THEN (IF sw.lt THEN LightCell ELSE GeoCell(ps, gk, bs, rks[j]))
                   ELSE IF HasCell(gk, CellKey(rks[j], pf))
                   THEN (IF sw.lt THEN LightCell ELSE StatCell(ps, CellKey(rks[j], pf), bs[pf]))
                   ELSE GapCell]]]

\* table.Concat of the benchmark rows and the geomean rows: the column sets must agree
ColVal(r, col) == IF col \in DOMAIN r.lab THEN r.lab[col] ELSE ""
ConstIn(ps, col, S) == IF col = "result" THEN Cardinality({ps[a].v : a \in S}) <= 1
                       ELSE Cardinality({ColVal(ps[a], col) : a \in S}) <= 1
\* (a cell whose normalised mean is 0/0 - a baseline of 0, only possible with ZeroFill - is dropped
\* by removeNaNs before the geomean rows are built)
NaNCell(ps, key, bs) == bs[key[2]] # NoBase /\ bs[key[2]][1] = 0 /\ SumSeq(GVals(ps, key)) = 0
ConcatClash(ps, gk, f, bs) ==
  LET cols == {"result"} \cup (UNION {DOMAIN f[j].lab : j \in 1..Len(f)} \ {"commit", "branch"})
      cellOf(key) == {a \in 1..Len(ps) : GKey(ps[a]) = key}
      rowOf(rk) == {a \in 1..Len(ps) : RowKeyOf(GKey(ps[a])) = rk /\ ~NaNCell(ps, GKey(ps[a]), bs)}
  IN \E col \in cols : /\ \A a \in 1..Len(gk) : ConstIn(ps, col, cellOf(gk[a]))
                       /\ \E a \in 1..Len(gk) : ~ConstIn(ps, col, rowOf(RowKeyOf(gk[a])))
HasGap(gk) == \E a, b \in 1..Len(gk) : ~HasCell(gk, CellKey(RowKeyOf(gk[a]), gk[b][2]))
ZeroBase(bs) == \E nm \in DOMAIN bs : bs[nm] # NoBase /\ bs[nm][1] = 0
\* a cell whose mean is 0 (only possible with ZeroFill): the geometric mean over it is NaN
ZeroMeanCell(ps, gk) == \E a \in 1..Len(gk) : SumSeq(GVals(ps, gk[a])) = 0

Outcome(kind, cls) == [kind |-> kind, cls |-> cls, type |-> "", prefixes |-> <<>>, rows |-> <<>>]

-----------------------------------------------------------------------------
Init ==
  /\ opt \in [x : XOpts, raw : RawOpts]
  /\ phase = "fetch" /\ fetched = <<>> /\ tab = EmptyTab /\ perm = <<>> /\ idx = <<>> /\ pts = <<>>
  /\ gkeys = <<>> /\ base = <<>> /\ geo = FALSE /\ out = Outcome("none", "") /\ hist = <<>>

Step(name) == hist' = Append(hist, name)

Add(r) ==
  /\ phase = "fetch" /\ Len(fetched) < MaxRes
  /\ fetched' = Append(fetched, r) /\ tab' = TabAdd(tab, r, SW)
  /\ Step("Add") /\ UNCHANGED <<opt, phase, perm, idx, pts, gkeys, base, geo, out>>

Finish ==
  /\ phase = "fetch"
  /\ IF CheckError(tab, opt.x) # ""
       THEN phase' = "done" /\ out' = Outcome("error", CheckError(tab, opt.x))
       ELSE phase' = "sortx" /\ out' = out
  /\ Step("Finish") /\ UNCHANGED <<opt, fetched, tab, perm, idx, pts, gkeys, base, geo>>

SortX ==
  /\ phase = "sortx" /\ perm' = SortXOp(fetched, opt.x) /\ phase' = "sortt"
  /\ Step("SortX") /\ UNCHANGED <<opt, fetched, tab, idx, pts, gkeys, base, geo, out>>

SortTime ==
  /\ phase = "sortt" /\ perm' = SortTOp(fetched, perm) /\ phase' = "index"
  /\ Step("SortTime") /\ UNCHANGED <<opt, fetched, tab, idx, pts, gkeys, base, geo, out>>

Index ==
  /\ phase = "index" /\ idx' = IndexOp(fetched, opt.x, perm, SW) /\ phase' = "points"
  /\ Step("Index") /\ UNCHANGED <<opt, fetched, tab, perm, pts, gkeys, base, geo, out>>

Points ==
  /\ phase = "points"
  /\ IF DOMAIN tab.res = {}
       THEN /\ pts' = <<>> /\ phase' = "done"
            /\ out' = IF NoUnitPanics THEN Outcome("panic", "no-unit") ELSE Outcome("nodata", "")
       ELSE IF "ns/op" \notin DOMAIN tab.res
       THEN /\ pts' = <<>> /\ phase' = "done"
            /\ out' = IF NoUnitPanics /\ ~opt.raw THEN Outcome("panic", "no-nsop") ELSE Outcome("nodata", "")
       ELSE /\ pts' = PointsFrom(tab, fetched, perm, idx) /\ out' = out
            /\ phase' = IF opt.raw THEN "emitraw" ELSE "agg"
  /\ Step("Points") /\ UNCHANGED <<opt, fetched, tab, perm, idx, gkeys, base, geo>>

EmitRaw ==
  /\ phase = "emitraw" /\ phase' = "done"
  /\ out' = [kind |-> "chart", cls |-> "", type |-> "ScatterChart", prefixes |-> <<>>, rows |-> Map(pts, RawRow)]
  /\ Step("EmitRaw") /\ UNCHANGED <<opt, fetched, tab, perm, idx, pts, gkeys, base, geo>>

Agg ==
  /\ phase = "agg" /\ gkeys' = GKeysOp(pts) /\ phase' = "norm"
  /\ Step("Agg") /\ UNCHANGED <<opt, fetched, tab, perm, idx, pts, base, geo, out>>

Norm ==
  /\ phase = "norm"
  /\ LET bs == TLCEval([nm \in Range(NamesOp(gkeys)) |-> BaseOp(pts, gkeys, nm)]) IN
     /\ base' = bs
     /\ IF \E nm \in DOMAIN bs : bs[nm] = NoBase
          THEN /\ phase' = "done"
               /\ out' = IF NoMasterPanics THEN Outcome("panic", "no-master") ELSE Outcome("loose", "no-master")
          ELSE phase' = "geo" /\ out' = out
  /\ Step("Norm") /\ UNCHANGED <<opt, fetched, tab, perm, idx, pts, gkeys, geo>>

Geo ==
  /\ phase = "geo"
  /\ geo' = Multi(gkeys)
  /\ IF Multi(gkeys) /\ ConcatStrict /\ ConcatClash(pts, gkeys, fetched, base)
       THEN phase' = "done" /\ out' = Outcome("panic", "concat")
       ELSE phase' = "pivot" /\ out' = out
  /\ Step("Geo") /\ UNCHANGED <<opt, fetched, tab, perm, idx, pts, gkeys, base>>

Pivot ==
  /\ phase = "pivot" /\ phase' = "done"
  /\ out' = IF (GapNaN /\ geo /\ HasGap(gkeys)) \/ ZeroBase(base) \/ (geo /\ ZeroMeanCell(pts, gkeys))
            THEN Outcome("panic", "nonfinite")
            ELSE [kind |-> "chart", cls |-> "", type |-> "LineChart", prefixes |-> PrefixesOp(gkeys),
                  rows |-> LineRows(pts, gkeys, base, SW)]
  /\ Step("Pivot") /\ UNCHANGED <<opt, fetched, tab, perm, idx, pts, gkeys, base, geo>>

\* the whole request as one function of the arrival sequence, the options and the switches
RunOp(f, o, sw) ==
  LET t == TabOf(f, sw) IN
  IF CheckError(t, o.x) # "" THEN Outcome("error", CheckError(t, o.x))
  ELSE IF DOMAIN t.res = {} THEN (IF sw.nu THEN Outcome("panic", "no-unit") ELSE Outcome("nodata", ""))
  ELSE IF "ns/op" \notin DOMAIN t.res THEN (IF sw.nu /\ ~o.raw THEN Outcome("panic", "no-nsop") ELSE Outcome("nodata", ""))
  ELSE LET p  == TLCEval(SortTOp(f, SortXOp(f, o.x)))
           ix == TLCEval(IndexOp(f, o.x, p, sw))
           ps == TLCEval(PointsFrom(t, f, p, ix))
       IN IF o.raw THEN [kind |-> "chart", cls |-> "", type |-> "ScatterChart", prefixes |-> <<>>, rows |-> Map(ps, RawRow)]
          ELSE LET gk == TLCEval(GKeysOp(ps))
                   bs == TLCEval([nm \in Range(NamesOp(gk)) |-> BaseOp(ps, gk, nm)])
               IN IF \E nm \in DOMAIN bs : bs[nm] = NoBase
                  THEN (IF sw.nm THEN Outcome("panic", "no-master") ELSE Outcome("loose", "no-master"))
                  ELSE IF Multi(gk) /\ sw.cs /\ ConcatClash(ps, gk, f, bs) THEN Outcome("panic", "concat")
                  ELSE IF (sw.gn /\ Multi(gk) /\ HasGap(gk)) \/ ZeroBase(bs) \/ (Multi(gk) /\ ZeroMeanCell(ps, gk))
                  THEN Outcome("panic", "nonfinite")
                  ELSE [kind |-> "chart", cls |-> "", type |-> "LineChart", prefixes |-> PrefixesOp(gk),
                        rows |-> LineRows(ps, gk, bs, sw)]

Next == (\E r \in Universe : Add(r)) \/ Finish \/ SortX \/ SortTime \/ Index \/ Points \/ EmitRaw
        \/ Agg \/ Norm \/ Geo \/ Pivot
Spec == Init /\ [][Next]_vars

-----------------------------------------------------------------------------
\* Declarative definitions: functions of the BAG of fetched results (positions are
\* only used to tell equal results apart).  rkt is the table RowKeys, computed once.
N == Len(fetched)
F(j) == fetched[j]
AllJ == 1..N
XR(j) == XRk(F(j), opt.x)
TR(j) == TRk(F(j))
KeyLE(a, b) == TR(a) < TR(b) \/ (TR(a) = TR(b) /\ XR(a) <= XR(b))
XVals == {XR(j) : j \in AllJ}
MinT(u) == MinOf({TR(j) : j \in {i \in AllJ : XR(i) = u}})
\* commit-index of an x value: the number of x values that appear earlier (commit-time, then value)
IdxD(u) == Cardinality({w \in XVals : MinT(w) < MinT(u) \/ (MinT(w) = MinT(u) /\ w < u)})
PtsD == {j \in AllJ : F(j).v > 0}
\* the chart row a result belongs to: (commit, branch, commit-index)
RowKeys == TLCEval([j \in AllJ |-> <<F(j).c, F(j).br, IdxD(XR(j))>>])
RowsD(rkt) == {rkt[j] : j \in PtsD}
NamesD == {F(j).n : j \in PtsD}
GroupD(rkt, nm, rk) == {j \in PtsD : F(j).n = nm /\ rkt[j] = rk}
SumV(S) == LET s == SetAsSeq(S) IN SumSeq([a \in 1..Len(s) |-> F(s[a]).v])
\* the baseline of a benchmark: its cell at the "earliest commit on master" (by commit-time; which
\* of several cells with that commit-time is not said)
MasterRowsD(rkt, nm) == {rk \in RowsD(rkt) : rk[2] = "master" /\ GroupD(rkt, nm, rk) # {}}
RowTime(rkt, a) == TR(CHOOSE j \in PtsD : rkt[j] = a)
FirstMasterD(rkt, nm) == LET ms == MasterRowsD(rkt, nm) IN {rk \in ms : \A other \in ms : RowTime(rkt, rk) <= RowTime(rkt, other)}
BaseD(rkt, nm) == LET rk == CHOOSE rk \in FirstMasterD(rkt, nm) : TRUE
                      g == GroupD(rkt, nm, rk) IN <<SumV(g), Cardinality(g)>>
\* two first cells on master (same commit-time) with different means
AmbiguousBase(rkt) == \E nm \in NamesD : \E a, b \in FirstMasterD(rkt, nm) :
                        SumV(GroupD(rkt, nm, a)) * Cardinality(GroupD(rkt, nm, b)) # SumV(GroupD(rkt, nm, b)) * Cardinality(GroupD(rkt, nm, a))

KindD(rkt) ==
  IF N = 0 \/ (\A j \in AllJ : F(j).br = "") THEN "error"
  ELSE IF opt.x = "k" /\ (\A j \in AllJ : F(j).k = "") THEN "error"
  ELSE IF PtsD = {} THEN "nodata"
  ELSE IF opt.raw THEN "chart"
  ELSE IF (\E nm \in NamesD : MasterRowsD(rkt, nm) = {}) \/ AmbiguousBase(rkt) THEN "loose"
  ELSE "chart"

\* a total order on raw rows, to list a bag canonically
RawRank(r) == ((r.i * 8 + CRank[r.c]) * 8 + r.v) * 4 + PRank[r.p]
SortedBy(rows, rank) == LET ord == StableSort(Idxs(Len(rows)), rank) IN [j \in 1..Len(rows) |-> rows[ord[j]]]
CanonRaw(rows) == SortedBy(rows, TLCEval([a \in 1..Len(rows) |-> RawRank(rows[a])]))
RawRowsD(rkt) == CanonRaw(Map(SetAsSeq(PtsD), LAMBDA j : [i |-> rkt[j][3], v |-> F(j).v, p |-> F(j).p, c |-> F(j).c]))

StatCellD(rkt, nm, rk, b) ==
  LET g == GroupD(rkt, nm, rk)
      s == SetAsSeq(g)
      vs == [a \in 1..Len(s) |-> F(s[a]).v]
  IN [gap |-> FALSE, cnt |-> 1, mean |-> <<SumSeq(vs) * b[2], Len(vs) * b[1]>>,
      min |-> <<MinOf(Range(vs)) * b[2], b[1]>>, max |-> <<MaxOf(Range(vs)) * b[2], b[1]>>,
      med |-> <<Med2(vs) * b[2], 2 * b[1]>>]
GeoCellD(rkt, rk, bases) ==
  LET present == SetAsSeq({nm \in NamesD : GroupD(rkt, nm, rk) # {}})
      cells == [a \in 1..Len(present) |-> StatCellD(rkt, present[a], rk, bases[present[a]])]
  IN [gap |-> FALSE, cnt |-> Len(cells), mean |-> RatProd(Map(cells, LAMBDA x : x.mean))]
PrefixesD == LET nms == SetAsSeq(NamesD)
                 srt == SortedBy(nms, TLCEval([a \in 1..Len(nms) |-> NRank[nms[a]]]))
             IN IF Cardinality(NamesD) > 1 THEN <<GEO>> \o srt ELSE srt
LineRank(rk) == (rk[3] * 8 + CRank[rk[1]]) * 4 + BRank[rk[2]]
LineRowsD(rkt) ==
  LET rks == SetAsSeq(RowsD(rkt))
      srt == SortedBy(rks, TLCEval([a \in 1..Len(rks) |-> LineRank(rks[a])]))
      bases == TLCEval([nm \in NamesD |-> BaseD(rkt, nm)])
      pfs == Range(PrefixesD)
  IN TLCEval([j \in 1..Len(srt) |->
        [i |-> srt[j][3], c |-> srt[j][1], br |-> srt[j][2],
         cells |-> [pf \in pfs |->
                      IF pf = GEO THEN GeoCellD(rkt, srt[j], bases)
                      ELSE IF GroupD(rkt, pf, srt[j]) # {} THEN StatCellD(rkt, pf, srt[j], bases[pf]) ELSE GapCell]]])

-----------------------------------------------------------------------------
\* Invariants

TableRight ==
  /\ tab.n = N /\ Len(tab.names) = N /\ \A j \in AllJ : tab.names[j] = F(j).n
  /\ DOMAIN tab.lab = UNION {LabelKeys(F(j)) : j \in AllJ}
  /\ DOMAIN tab.res = UNION {Units(F(j)) : j \in AllJ}
  /\ \A key \in DOMAIN tab.lab : /\ Len(tab.lab[key]) = N
                                 /\ \A j \in AllJ : tab.lab[key][j] = IF key \in LabelKeys(F(j)) THEN LabelVal(F(j), key) ELSE ""
  /\ \A u \in DOMAIN tab.res : /\ Len(tab.res[u]) = N
                               /\ \A j \in AllJ : u \in Units(F(j)) => tab.res[u][j] = [has |-> TRUE, v |-> UnitVal(F(j), u)]

SameBag(s, t) == Len(s) = Len(t) /\ \A x \in Range(s) \cup Range(t) :
                   Cardinality({a \in 1..Len(s) : s[a] = x}) = Cardinality({a \in 1..Len(t) : t[a] = x})
Sorted(p) == \A a, b \in 1..Len(p) : a < b => KeyLE(p[a], p[b])
IsPerm(p) == Len(p) = N /\ Range(p) = AllJ
SortRight == phase \in {"index", "points", "emitraw", "agg", "norm", "geo", "pivot"} => IsPerm(perm) /\ Sorted(perm)

IndexRight == phase \in {"points", "emitraw", "agg", "norm", "geo", "pivot"} =>
  /\ Len(idx) = N
  /\ \A a, b \in 1..N : (idx[a] = idx[b]) <=> (XR(perm[a]) = XR(perm[b]))
  /\ \A a \in 1..N : idx[a] = IdxD(XR(perm[a]))
  /\ {idx[a] : a \in 1..N} = 0..(Cardinality(XVals) - 1)

PointsRight == phase \in {"emitraw", "agg", "norm", "geo", "pivot"} =>
  \* the points are the results with an ns/op measurement, each exactly once
  LET want == SetAsSeq({j \in 1..N : perm[j] \in PtsD}) IN
  /\ Len(pts) = Cardinality(PtsD)
  /\ SameBag(pts, [a \in 1..Len(want) |-> RowAt(fetched, perm, idx, want[a])])

NoPanic == out.kind # "panic"
\* the staged actions compute the function RunOp
ActionsAgree == phase = "done" => out = RunOp(fetched, opt, SW)

CellEq(a, b) == /\ a.gap = b.gap /\ a.cnt = b.cnt
                /\ (~a.gap => RatEq(a.mean, b.mean))
CellEqFull(a, b) == CellEq(a, b) /\ (~a.gap => RatEq(a.min, b.min) /\ RatEq(a.max, b.max) /\ RatEq(a.med, b.med))

OutRight == phase = "done" =>
  LET rkt == RowKeys
      kd == KindD(rkt) IN
  /\ out.kind = kd \/ (out.kind = "chart" /\ kd = "loose")
  /\ (out.kind = "chart" /\ opt.raw) =>
       /\ out.type = "ScatterChart"
       /\ SameBag(out.rows, RawRowsD(rkt))
  /\ (out.kind = "chart" /\ ~opt.raw /\ kd = "chart") =>
       LET want == LineRowsD(rkt)
           pfs == PrefixesD IN
       /\ out.type = "LineChart"
       /\ out.prefixes = pfs
       /\ Len(out.rows) = Len(want)
       /\ \A a \in 1..Len(out.rows) : \E b \in 1..Len(want) :
            /\ out.rows[a].i = want[b].i /\ out.rows[a].c = want[b].c /\ out.rows[a].br = want[b].br
            /\ \A pf \in Range(pfs) :
                 IF pf = GEO THEN CellEq(out.rows[a].cells[pf], want[b].cells[pf])
                 ELSE CellEqFull(out.rows[a].cells[pf], want[b].cells[pf])

\* the line chart lists its rows along x: commit-index never decreases from one row to the next
\* (the order of the rows of the scatter chart means nothing)
RowsSorted == (out.kind = "chart" /\ ~opt.raw) => \A a, b \in 1..Len(out.rows) : a < b => out.rows[a].i <= out.rows[b].i

\* one column group per benchmark in sorted order, the geomean first, only with more than one benchmark
ColumnsRight == (out.kind = "chart" /\ ~opt.raw) =>
  /\ \A a, b \in 1..Len(out.prefixes) : a < b /\ out.prefixes[a] # GEO => out.prefixes[b] # GEO /\ NRank[out.prefixes[a]] < NRank[out.prefixes[b]]
  /\ (GEO \in Range(out.prefixes)) <=> (Cardinality(Range(out.prefixes) \ {GEO}) > 1)
  /\ Range(out.prefixes) \ {GEO} = {F(j).n : j \in {a \in AllJ : ZeroFill \/ F(a).v > 0}}

\* a cell is a gap iff the benchmark has no point at that row; the geomean never is
GapRight == (out.kind = "chart" /\ ~opt.raw /\ ~ZeroFill) =>
  LET rkt == RowKeys IN
  \A a \in 1..Len(out.rows) : \A pf \in Range(out.prefixes) :
     out.rows[a].cells[pf].gap <=> (pf # GEO /\ GroupD(rkt, pf, <<out.rows[a].c, out.rows[a].br, out.rows[a].i>>) = {})

\* the first cell of every benchmark on master is 1
BaselineIsOne == (out.kind = "chart" /\ ~opt.raw /\ ~ZeroFill) =>
  LET rkt == RowKeys IN
  \A nm \in NamesD : \A rk \in FirstMasterD(rkt, nm) : \A a \in 1..Len(out.rows) :
     (<<out.rows[a].c, out.rows[a].br, out.rows[a].i>> = rk /\ ~AmbiguousBase(rkt)) => RatEq(out.rows[a].cells[nm].mean, <<1, 1>>)

\* a geomean over one benchmark is that benchmark
GeoSane == (out.kind = "chart" /\ ~opt.raw /\ GEO \in Range(out.prefixes)) =>
  \A a \in 1..Len(out.rows) :
     LET g == out.rows[a].cells[GEO] IN
     /\ g.cnt = Cardinality({pf \in Range(out.prefixes) \ {GEO} : ~out.rows[a].cells[pf].gap})
     /\ (g.cnt = 1 => \E pf \in Range(out.prefixes) \ {GEO} : ~out.rows[a].cells[pf].gap /\ RatEq(g.mean, out.rows[a].cells[pf].mean))
=============================================================================
