------------------------------ MODULE TrendFilter ------------------------------
(* The smoothing filters of the trend page (golang.org/x/perf/analysis/app,        *)
(* kza.go): MovingAverage, KolmogorovZurbenko, AdaptiveKolmogorovZurbenko, as an     *)
(* exact model over small integer series.                                           *)
(*                                                                                  *)
(* Function-style family: every series over 0..MaxVal of length <= MaxLen is        *)
(* reached by appending one value per step (Extend); the window size m (odd) and    *)
(* the number of iterations k are chosen in the initial state.  All arithmetic is   *)
(* exact: a filtered series is a sequence of integer numerators over the common     *)
(* denominator L^j after j moving averages (L = 60 is divisible by every window     *)
(* population 1..5, so `sum * (L \div count)` is the exact mean).                   *)
(*                                                                                  *)
(* What the documentation says (kza.go):                                            *)
(*   MovingAverage "performs a moving average (MA) filter of xs with window size m.  *)
(*     m must be a positive odd integer" - half length (m-1)/2; the package's own    *)
(*     test states the reference: the mean of the xs[j] with |j-i| <= (m-1)/2 that   *)
(*     exist (the window is clipped at both ends, the divisor is the population).    *)
(*   KolmogorovZurbenko "performs a KZ filter of xs with window size m and k         *)
(*     iterations": "the iterated moving average".                                   *)
(*   AdaptiveKolmogorovZurbenko: Zurbenko 1996 with the stated reading: z = KZ(xs),  *)
(*     D(t) = |z(t+q) - z(t-q)| where both exist (else 0), D'(t) = D(t+1) - D(t),    *)
(*     f(t) = 1 - D(t)/max D; the tail half-window is q where D' > 0 and             *)
(*     ceil(q f) where D' <= 0, the head half-window q where D' < 0 and floor(q f)   *)
(*     where D' >= 0, both clipped to the series; the output is the mean of the      *)
(*     ORIGINAL xs over [t - tail, t + head] ("summing all points of xs between qt   *)
(*     and qh", divisor = number of terms).  A series whose D is zero everywhere     *)
(*     is returned unchanged.                                                        *)
(*                                                                                  *)
(* The code computes in float64.  Wherever the exact computation has a TIE the       *)
(* float computation may fall on either side (D'(t) = 0 exactly, q f an exact        *)
(* integer), so the specification is nondeterministic there: KZAAllowed(t) is the    *)
(* SET of window means a conforming implementation may return at position t.  It     *)
(* is a singleton wherever no tie is involved.                                       *)
(*                                                                                  *)
(* Laws (invariants): length preserved; a constant series is a fixed point; every    *)
(* output lies between the minimum and the maximum of the inputs in its window;      *)
(* windows are clipped at both ends; m = 1 and k = 1 identities; the mirror image    *)
(* of a series gives the mirror image of the output (MA, KZ); the sliding-sum        *)
(* algorithm of the code (MAOp) equals the definition (MADecl).                      *)
EXTENDS Integers, Sequences, FiniteSets, TLC

CONSTANTS MaxLen, MaxVal, Ms, Ks
VARIABLES xs, m, k
vars == <<xs, m, k>>

L == 60                       \* common multiple of the window populations 1..5
ASSUME \A w \in Ms : w \in {1, 3, 5}

Abs(a) == IF a < 0 THEN -a ELSE a
RECURSIVE Pow(_, _)
Pow(b, e) == IF e = 0 THEN 1 ELSE b * Pow(b, e - 1)
RECURSIVE SumRange(_, _, _)
SumRange(s, a, b) == IF a > b THEN 0 ELSE s[a] + SumRange(s, a + 1, b)
MinOver(s, a, b) == CHOOSE v \in {s[j] : j \in a..b} : \A j \in a..b : v <= s[j]
MaxOver(s, a, b) == CHOOSE v \in {s[j] : j \in a..b} : \A j \in a..b : v >= s[j]
Rev(s) == [i \in 1..Len(s) |-> s[Len(s) + 1 - i]]
IsConst(s) == \A i, j \in 1..Len(s) : s[i] = s[j]
Lo(i, h) == IF i - h < 1 THEN 1 ELSE i - h
Hi(i, h, n) == IF i + h > n THEN n ELSE i + h

-----------------------------------------------------------------------------
\* Declarative: the moving average.  s holds numerators over some denominator d;
\* the result holds numerators over d * L.
MADecl(s, w) ==
  LET h == (w - 1) \div 2  n == Len(s) IN
  [i \in 1..n |-> SumRange(s, Lo(i, h), Hi(i, h, n)) * (L \div (Hi(i, h, n) - Lo(i, h) + 1))]

\* Operational: the loop of MovingAverage - a running sum with a tail index l, an
\* output index i and a head index r (0-based as in the code), one iteration per call
RECURSIVE MALoop(_, _, _, _, _, _, _, _)
MALoop(s, w, l, i, r, sum, cnt, ys) ==
  IF i >= Len(s) THEN ys
  ELSE LET sum1 == IF l >= 0 THEN sum - s[l + 1] ELSE sum
           cnt1 == IF l >= 0 THEN cnt - 1 ELSE cnt
           sum2 == IF r < Len(s) THEN sum1 + s[r + 1] ELSE sum1
           cnt2 == IF r < Len(s) THEN cnt1 + 1 ELSE cnt1
           ys2  == IF i >= 0 THEN Append(ys, sum2 * (L \div cnt2)) ELSE ys
       IN MALoop(s, w, l + 1, i + 1, r + 1, sum2, cnt2, ys2)
MAOp(s, w) == MALoop(s, w, -w, -((w - 1) \div 2), 0, 0, 0, <<>>)

RECURSIVE KZ(_, _, _)
KZ(s, w, it) == IF it = 0 THEN s ELSE KZ(MADecl(s, w), w, it - 1)    \* numerators over L^it

-----------------------------------------------------------------------------
\* The adaptive filter.  Positions t are 0-based as in the code; s is 1-based.
Q(w) == (w - 1) \div 2
DAt(z, w, t) == IF Q(w) <= t /\ t < Len(z) - Q(w) THEN Abs(z[t + Q(w) + 1] - z[t - Q(w) + 1]) ELSE 0
MaxD(z, w) == LET S == {DAt(z, w, t) : t \in 0..Len(z)} IN CHOOSE v \in S : \A u \in S : v >= u
DRangeEmpty(s, w) == Len(s) <= 2 * Q(w)

\* mean of xs over [t - qt, t + qh] after clipping, as <<sum, count>>
Window(s, t, qt, qh) ==
  LET n   == Len(s)
      qt1 == IF t - qt < 0 THEN t ELSE qt
      qh1 == IF t + qh >= n THEN n - t - 1 ELSE qh
  IN <<SumRange(s, t - qt1 + 1, t + qh1 + 1), qt1 + qh1 + 1>>

CeilSet(num, den, q) ==
  IF num % den = 0 THEN {num \div den} \cup (IF num \div den < q THEN {num \div den + 1} ELSE {})
  ELSE {num \div den + 1}
FloorSet(num, den, q) ==
  IF num % den = 0 THEN {num \div den} \cup (IF num \div den > 0 THEN {num \div den - 1} ELSE {})
  ELSE {num \div den}

KZAAllowed(s, w, it, t) ==
  LET z  == KZ(s, w, it)
      q  == Q(w)
      mx == MaxD(z, w)
  IN IF mx = 0
     THEN IF DRangeEmpty(s, w) \/ it = 1 \/ IsConst(s)
          THEN {<<s[t + 1], 1>>}
          \* equal numbers reached by different sums of rounded values: float noise decides
          ELSE {Window(s, t, a, b) : a \in 0..q, b \in 0..q}
     ELSE LET dp  == DAt(z, w, t + 1) - DAt(z, w, t)
              num == q * (mx - DAt(z, w, t))
              qts == (IF dp <= 0 THEN CeilSet(num, mx, q) ELSE {}) \cup (IF dp >= 0 THEN {q} ELSE {})
              qhs == (IF dp >= 0 THEN FloorSet(num, mx, q) ELSE {}) \cup (IF dp <= 0 THEN {q} ELSE {})
          IN {Window(s, t, a, b) : a \in qts, b \in qhs}

\* no tie anywhere: the expected output is unique
KZAExact(s, w, it) == \A t \in 0..(Len(s) - 1) : Cardinality(KZAAllowed(s, w, it, t)) = 1

-----------------------------------------------------------------------------
Init == xs = <<>> /\ m \in Ms /\ k \in Ks
Extend(v) == Len(xs) < MaxLen /\ xs' = Append(xs, v) /\ UNCHANGED <<m, k>>
Next == \E v \in 0..MaxVal : Extend(v)
Spec == Init /\ [][Next]_vars

-----------------------------------------------------------------------------
n == Len(xs)
h == Q(m)

LengthKept == /\ Len(MADecl(xs, m)) = n /\ Len(MAOp(xs, m)) = n /\ Len(KZ(xs, m, k)) = n
              /\ \A t \in 0..(n - 1) : KZAAllowed(xs, m, k, t) # {}
SlidingSumRight == MAOp(xs, m) = MADecl(xs, m)
ConstFixed == IsConst(xs) =>
                /\ \A i \in 1..n : MADecl(xs, m)[i] = xs[i] * L
                /\ \A i \in 1..n : KZ(xs, m, k)[i] = xs[i] * Pow(L, k)
                /\ \A t \in 0..(n - 1) : KZAAllowed(xs, m, k, t) = {<<xs[t + 1], 1>>}
\* every output between min and max of the inputs of its window (clipped at both ends)
MABounds == \A i \in 1..n : /\ MADecl(xs, m)[i] >= L * MinOver(xs, Lo(i, h), Hi(i, h, n))
                            /\ MADecl(xs, m)[i] <= L * MaxOver(xs, Lo(i, h), Hi(i, h, n))
KZBounds == \A i \in 1..n : /\ KZ(xs, m, k)[i] >= Pow(L, k) * MinOver(xs, Lo(i, k * h), Hi(i, k * h, n))
                            /\ KZ(xs, m, k)[i] <= Pow(L, k) * MaxOver(xs, Lo(i, k * h), Hi(i, k * h, n))
KZABounds == \A t \in 0..(n - 1) : \A a \in KZAAllowed(xs, m, k, t) :
               /\ a[2] >= 1 /\ a[2] <= m
               /\ a[1] >= a[2] * MinOver(xs, Lo(t + 1, h), Hi(t + 1, h, n))
               /\ a[1] <= a[2] * MaxOver(xs, Lo(t + 1, h), Hi(t + 1, h, n))
\* the ends: the first output of MA is the mean of the first min(h+1, n) inputs, the last of the last ones
EndsClipped == n > 0 =>
                 /\ MADecl(xs, m)[1] = SumRange(xs, 1, Hi(1, h, n)) * (L \div Hi(1, h, n))
                 /\ MADecl(xs, m)[n] = SumRange(xs, Lo(n, h), n) * (L \div (n - Lo(n, h) + 1))
IdentityM1 == m = 1 => /\ \A i \in 1..n : KZ(xs, m, k)[i] = xs[i] * Pow(L, k)
                       /\ \A t \in 0..(n - 1) : KZAAllowed(xs, m, k, t) = {<<xs[t + 1], 1>>}
IdentityK1 == KZ(xs, m, 1) = MADecl(xs, m)
Mirror == /\ MADecl(Rev(xs), m) = Rev(MADecl(xs, m))
          /\ KZ(Rev(xs), m, k) = Rev(KZ(xs, m, k))
\* a series too short for any difference D is returned as it is
ShortIsIdentity == DRangeEmpty(xs, m) => \A t \in 0..(n - 1) : KZAAllowed(xs, m, k, t) = {<<xs[t + 1], 1>>}
=============================================================================
