---------------------------- MODULE TrendFilter_gen ----------------------------
(* Generator wrapper (mode G) for TrendFilter: one replay case per series, window   *)
(* and iteration count.  The case carries the exact expected outputs: the moving    *)
(* average and the KZ filter as integer numerators over den = 60 and 60^k, and for   *)
(* the adaptive filter the set of window means <<sum, count>> allowed at every       *)
(* position (a singleton unless the exact computation has a tie).  The harness       *)
(* calls MovingAverage, KolmogorovZurbenko and AdaptiveKolmogorovZurbenko on the     *)
(* series (and on affine images of it) and compares within 1e-9.                     *)
EXTENDS TrendFilter, Json

RECURSIVE SetAsSeq(_)
SetAsSeq(S) == IF S = {} THEN <<>> ELSE LET x == CHOOSE x \in S : TRUE IN <<x>> \o SetAsSeq(S \ {x})

CaseOf ==
  [tag |-> "case", kind |-> "filter", xs |-> xs, m |-> m, k |-> k,
   maden |-> L, ma |-> MADecl(xs, m),
   kzden |-> Pow(L, k), kz |-> KZ(xs, m, k),
   kza |-> [i \in 1..Len(xs) |-> SetAsSeq({[s |-> a[1], c |-> a[2]] : a \in KZAAllowed(xs, m, k, i - 1)})],
   exact |-> KZAExact(xs, m, k)]

Emit == PrintT(ToJson(CaseOf))
=============================================================================
