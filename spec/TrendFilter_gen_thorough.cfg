SPECIFICATION Spec
CONSTANTS
  MaxLen = 6
  MaxVal = 3
  Ms = {1, 3, 5}
  Ks = {1, 2, 3}
INVARIANTS Emit
CHECK_DEADLOCK FALSE
