SPECIFICATION Spec
CONSTANTS
  MaxLen = 5
  MaxVal = 3
  Ms = {1, 3, 5}
  Ks = {1, 2, 3}
INVARIANTS LengthKept SlidingSumRight ConstFixed MABounds KZBounds KZABounds EndsClipped IdentityM1 IdentityK1 Mirror ShortIsIdentity
CHECK_DEADLOCK FALSE
