SPECIFICATION Spec
CONSTANTS
  Universe <- UAggQ
  NameRanks <- DefaultNameRanks
  MaxRes = 3
  XOpts = {""}
  RawOpts = {TRUE, FALSE}
  ZeroFill = FALSE
  IndexRuns = FALSE
  IndexEmptyFirst = FALSE
  NoUnitPanics = FALSE
  NoMasterPanics = FALSE
  ConcatStrict = TRUE
  GapNaN = FALSE
  RowsNameMajor = FALSE
VIEW View
INVARIANTS NoPanic
CHECK_DEADLOCK FALSE
