SPECIFICATION Spec
CONSTANTS
  Universe <- UOrder
  NameRanks <- DefaultNameRanks
  MaxRes = 3
  XOpts = {"k"}
  RawOpts = {TRUE, FALSE}
  ZeroFill = FALSE
  IndexRuns = FALSE
  IndexEmptyFirst = TRUE
  NoUnitPanics = FALSE
  NoMasterPanics = FALSE
  ConcatStrict = FALSE
  GapNaN = FALSE
  RowsNameMajor = FALSE
VIEW View
INVARIANTS IndexRight
CHECK_DEADLOCK FALSE
