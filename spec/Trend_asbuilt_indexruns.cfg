SPECIFICATION Spec
CONSTANTS
  Universe <- UOrder
  NameRanks <- DefaultNameRanks
  MaxRes = 3
  XOpts = {"k"}
  RawOpts = {TRUE, FALSE}
  ZeroFill = FALSE
  IndexRuns = TRUE
  IndexEmptyFirst = FALSE
  NoUnitPanics = FALSE
  NoMasterPanics = FALSE
  ConcatStrict = FALSE
  GapNaN = FALSE
  RowsNameMajor = FALSE
VIEW View
INVARIANTS IndexRight
CHECK_DEADLOCK FALSE
