SPECIFICATION Spec
CONSTANTS
  Universe <- UPointsQ
  NameRanks <- DefaultNameRanks
  MaxRes = 3
  XOpts = {""}
  RawOpts = {TRUE, FALSE}
  ZeroFill = FALSE
  IndexRuns = FALSE
  IndexEmptyFirst = FALSE
  NoUnitPanics = TRUE
  NoMasterPanics = FALSE
  ConcatStrict = FALSE
  GapNaN = FALSE
  RowsNameMajor = FALSE
VIEW View
INVARIANTS NoPanic
CHECK_DEADLOCK FALSE
