SPECIFICATION Spec
CONSTANTS
  Universe <- UOrder
  NameRanks <- DefaultNameRanks
  MaxRes = 3
  XOpts = {"k"}
  RawOpts = {TRUE, FALSE}
  ZeroFill = FALSE
  IndexRuns = FALSE
  IndexEmptyFirst = FALSE
  NoUnitPanics = FALSE
  NoMasterPanics = FALSE
  ConcatStrict = FALSE
  GapNaN = FALSE
  RowsNameMajor = TRUE
VIEW View
INVARIANTS RowsSorted
CHECK_DEADLOCK FALSE
