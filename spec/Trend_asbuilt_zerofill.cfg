SPECIFICATION Spec
CONSTANTS
  Universe <- UPointsQ
  NameRanks <- DefaultNameRanks
  MaxRes = 3
  XOpts = {""}
  RawOpts = {TRUE, FALSE}
  ZeroFill = TRUE
  IndexRuns = FALSE
  IndexEmptyFirst = FALSE
  NoUnitPanics = FALSE
  NoMasterPanics = FALSE
  ConcatStrict = FALSE
  GapNaN = FALSE
  RowsNameMajor = FALSE
VIEW View
INVARIANTS PointsRight
CHECK_DEADLOCK FALSE
