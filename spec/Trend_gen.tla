------------------------------- MODULE Trend_gen -------------------------------
(* Generator wrapper (mode G) for Trend: one replay case per finished request.       *)
(* The case carries the options, the results in the order the storage server         *)
(* delivered them, and what the DECLARATIVE side of the specification demands: the   *)
(* columns of the table after every result and the cells of its row (steps), and     *)
(* the outcome: kind error / nodata (an error or a chart without rows) / loose (no   *)
(* baseline on master is documented: an error or any well-formed chart) / chart      *)
(* with the canonical list of the scatter chart's rows, or the prefixes and rows of   *)
(* the line chart with exact rational cells (a geomean cell is (mean)^(1/cnt)).       *)
(* Where the as-built model (all named deviations switched on) predicts something     *)
(* else the case also carries that prediction and the deviations that matter, so      *)
(* the harness can name what it sees.  The harness drives queryToTable on every       *)
(* prefix of the stream and trendQuery on the whole of it.                            *)
EXTENDS Trend, Json

ResJ(r) == [n |-> r.n, c |-> r.c, t |-> TimeOf[r.c], br |-> r.br, p |-> r.p, k |-> r.k, v |-> r.v, o |-> r.o]
StepJ(j) == [keys |-> SetAsSeq(UNION {LabelKeys(F(i)) : i \in 1..j}),
             units |-> SetAsSeq(UNION {Units(F(i)) : i \in 1..j}),
             labels |-> [key \in LabelKeys(F(j)) |-> LabelVal(F(j), key)],
             vals |-> [u \in Units(F(j)) |-> UnitVal(F(j), u)]]

CellJ(c) == IF c.gap THEN [gap |-> TRUE]
            ELSE IF "min" \in DOMAIN c
            THEN [gap |-> FALSE, cnt |-> c.cnt, mean |-> c.mean, min |-> c.min, max |-> c.max, med |-> c.med]
            ELSE [gap |-> FALSE, cnt |-> c.cnt, mean |-> c.mean]
LineRowJ(r) == [i |-> r.i, c |-> r.c, br |-> r.br, cells |-> [pf \in DOMAIN r.cells |-> CellJ(r.cells[pf])]]
OutJ(o) == [kind |-> o.kind, cls |-> o.cls, type |-> o.type, prefixes |-> o.prefixes,
            rows |-> IF o.type = "LineChart" THEN Map(o.rows, LineRowJ) ELSE o.rows]

ExpectJ ==
  LET rkt == RowKeys
      kd == KindD(rkt) IN
  IF kd # "chart" THEN [kind |-> kd, cls |-> "", type |-> "", prefixes |-> <<>>, rows |-> <<>>]
  ELSE IF opt.raw THEN [kind |-> kd, cls |-> "", type |-> "ScatterChart", prefixes |-> <<>>, rows |-> RawRowsD(rkt)]
  ELSE [kind |-> kd, cls |-> "", type |-> "LineChart", prefixes |-> PrefixesD, rows |-> Map(LineRowsD(rkt), LineRowJ)]

Only(s) == [Normative EXCEPT ![s] = TRUE]
SwitchNames == <<"zf", "ie", "ir", "nu", "nm", "cs", "gn", "rn">>

CaseOf ==
  LET norm == RunOp(fetched, opt, Normative)
      asb == RunOp(fetched, opt, AsBuilt)
      differs == asb # norm
  IN [tag |-> "case", kind |-> "trend", path |-> hist, x |-> opt.x, raw |-> opt.raw,
      fetched |-> Map(fetched, ResJ),
      steps |-> [j \in 1..Len(fetched) |-> StepJ(j)],
      expect |-> ExpectJ,
      differs |-> differs,
      asbuilt |-> IF differs THEN OutJ(asb) ELSE OutJ(Outcome("same", "")),
      devs |-> IF differs THEN SelectSeq(SwitchNames, LAMBDA s : RunOp(fetched, opt, Only(s)) # norm) ELSE <<>>]

Emit == phase = "done" => PrintT(ToJson(CaseOf))
=============================================================================
