SPECIFICATION Spec
CONSTANTS
  Universe <- USim
  NameRanks <- DefaultNameRanks
  MaxRes = 7
  XOpts = {"", "k"}
  RawOpts = {TRUE, FALSE}
  ZeroFill = FALSE
  IndexRuns = FALSE
  IndexEmptyFirst = FALSE
  NoUnitPanics = FALSE
  NoMasterPanics = FALSE
  ConcatStrict = FALSE
  GapNaN = FALSE
  RowsNameMajor = FALSE
VIEW View
INVARIANTS Emit
CHECK_DEADLOCK FALSE
