SPECIFICATION Spec
CONSTANTS
  Universe <- UAgg1
  NameRanks <- DefaultNameRanks
  MaxRes = 4
  XOpts = {""}
  RawOpts = {FALSE}
  ZeroFill = FALSE
  IndexRuns = FALSE
  IndexEmptyFirst = FALSE
  NoUnitPanics = FALSE
  NoMasterPanics = FALSE
  ConcatStrict = FALSE
  GapNaN = FALSE
  RowsNameMajor = FALSE
VIEW View
INVARIANTS Emit
CHECK_DEADLOCK FALSE
