SPECIFICATION Spec
CONSTANTS
  Universe <- UPoints
  NameRanks <- DefaultNameRanks
  MaxRes = 3
  XOpts = {"", "k"}
  RawOpts = {TRUE, FALSE}
  ZeroFill = FALSE
  IndexRuns = FALSE
  IndexEmptyFirst = FALSE
  NoUnitPanics = FALSE
  NoMasterPanics = FALSE
  ConcatStrict = FALSE
  GapNaN = FALSE
  RowsNameMajor = FALSE
VIEW View
INVARIANTS Emit
CHECK_DEADLOCK FALSE
