SPECIFICATION Spec
CONSTANTS
  Universe <- UOrder
  NameRanks <- DefaultNameRanks
  MaxRes = 4
  XOpts = {"", "k"}
  RawOpts = {TRUE, FALSE}
  ZeroFill = FALSE
  IndexRuns = FALSE
  IndexEmptyFirst = FALSE
  NoUnitPanics = FALSE
  NoMasterPanics = FALSE
  ConcatStrict = FALSE
  GapNaN = FALSE
  RowsNameMajor = FALSE
VIEW View
INVARIANTS TableRight SortRight IndexRight PointsRight NoPanic ActionsAgree OutRight RowsSorted ColumnsRight GapRight BaselineIsOne GeoSane
CHECK_DEADLOCK FALSE
