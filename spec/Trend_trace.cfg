SPECIFICATION TSpec
CONSTANTS
  Universe = {}
  NameRanks <- TraceNameRanks
  MaxRes = 0
  XOpts = {""}
  RawOpts = {TRUE}
  ZeroFill = FALSE
  IndexRuns = FALSE
  IndexEmptyFirst = FALSE
  NoUnitPanics = FALSE
  NoMasterPanics = FALSE
  ConcatStrict = FALSE
  GapNaN = FALSE
  RowsNameMajor = FALSE
CONSTRAINT HW
POSTCONDITION Post
CHECK_DEADLOCK FALSE
