------------------------------ MODULE Trend_trace ------------------------------
(* Trace validation (mode T) for Trend and TrendFilter: events recorded from the     *)
(* real code by a seeded driver (more label keys, more benchmarks, longer streams    *)
(* and series than TLC enumerates) are judged by the specification's own operators.  *)
(*                                                                                  *)
(*   reset     start of an independent stream                                        *)
(*   add       the storage server delivered the next result; obs = the table         *)
(*             queryToTable builds from the stream so far.  The specification's      *)
(*             table grows by TabAdd and must agree (length, label columns, result    *)
(*             columns, every column as long as the table, the cells of the results)  *)
(*   request   trendQuery on the stream (x = "" or the label logged as "k", raw or    *)
(*             not); obs = error / panic class / chart (points or rows identified     *)
(*             by value and commit).  Judged against RunOp(fetched, options,          *)
(*             Normative); what the as-built model predicts instead is named          *)
(*   colindex  colIndex on an arbitrary column (ranks of its values, 0 = "")         *)
(*   filter    the three filters on a longer integer series; outputs * 1000 rounded:  *)
(*             lengths, window bounds, and every output is the mean of a window       *)
(*   js        tableToJS on a table with awkward strings / numbers JSON cannot hold   *)
(*   page      the page the handler renders holds the same literal                    *)
(*                                                                                  *)
(* Every event is consumed; its class ("ok" or the name of the deviation) is printed  *)
(* as {tag:"tv", i, class}.  Acceptance = all lines consumed (TRACE hwm= len=).       *)
EXTENDS Trend, Json

TraceLog == ndJsonDeserialize("trace.ndjson")

VARIABLES l
tvars == <<vars, hist, l>>

Ev == TraceLog[l]

ToSet(s) == Range(s)
Get(f, key) == IF key \in DOMAIN f THEN f[key] ELSE ""
ResOf(e) ==
  [n |-> e.n, c |-> Get(e.lab, "commit"), t |-> Get(e.lab, "commit-time"), br |-> Get(e.lab, "branch"),
   p |-> Get(e.lab, "upload-part"), k |-> e.k,
   v |-> IF "ns/op" \in DOMAIN e.units THEN e.units["ns/op"] ELSE 0,
   o |-> (DOMAIN e.units \ {"ns/op"}) # {},
   cr |-> e.cr, tr |-> e.tr, kr |-> e.kr,
   lab |-> TLCEval([key \in DOMAIN e.lab |-> e.lab[key]]),
   units |-> TLCEval([u \in DOMAIN e.units |-> e.units[u]])]

\* the benchmark names of the recorder in bytewise order (the harness logs the rank of every
\* name as well; a disagreement is a harness problem, class "harness-ranks")
TraceNameRanks == "Decode" :> 0 @@ "Encode" :> 1 @@ "Fib" :> 2 @@ "GobDecode" :> 3 @@ "HTTP" :> 4
                  @@ "JSONenc" :> 5 @@ "Sort" :> 6 @@ "Template" :> 7

Say(cls) == PrintT(ToJson([tag |-> "tv", i |-> l, class |-> cls]))

DevName(s) == CASE s = "zf" -> "absent-unit-plotted-as-zero"
                [] s = "ie" -> "commit-index-starts-at-minus-one"
                [] s = "ir" -> "commit-index-counts-runs"
                [] s = "nu" -> "no-nsop-measurement-panics"
                [] s = "nm" -> "no-master-baseline-panics"
                [] s = "cs" -> "geomean-concat-columns-panic"
                [] s = "gn" -> "gap-nan-json-panic"
                [] s = "rn" -> "rows-not-along-x"
PanicDev(cls) == CASE cls \in {"no-unit", "no-nsop"} -> "nu" [] cls = "no-master" -> "nm" [] cls = "concat" -> "cs"
                   [] cls = "nonfinite" -> "gn" [] OTHER -> "other"
NormL == [Normative EXCEPT !.lt = TRUE]
AsBuiltL == [AsBuilt EXCEPT !.lt = TRUE]
Only(s) == [NormL EXCEPT ![s] = TRUE]
SwitchNames == <<"zf", "ie", "ir", "nu", "nm", "cs", "gn", "rn">>

-----------------------------------------------------------------------------
TInit == Init /\ opt = [x |-> "", raw |-> TRUE] /\ l = 1

Keep == UNCHANGED <<opt, phase, perm, idx, pts, gkeys, base, geo, out, hist>>

TraceReset ==
  /\ l <= Len(TraceLog) /\ Ev.ev = "reset"
  /\ fetched' = <<>> /\ tab' = EmptyTab /\ l' = l + 1 /\ Keep

AddClass(t, o) ==
  IF ~(o.n = t.n /\ o.rect /\ ToSet(o.keys) = DOMAIN t.lab /\ Len(o.keys) = Cardinality(DOMAIN t.lab)
       /\ ToSet(o.units) = DOMAIN t.res /\ Len(o.units) = Cardinality(DOMAIN t.res)
       /\ ToSet(o.resultcols) = DOMAIN t.res /\ Len(o.resultcols) = Cardinality(DOMAIN t.res))
  THEN "table-columns"
  ELSE IF ~o.intact THEN "table-cell" ELSE "ok"

TraceAdd ==
  /\ l <= Len(TraceLog) /\ Ev.ev = "add"
  /\ LET r == TLCEval(ResOf(Ev.res))
         t == TLCEval(TabAdd(tab, r, Normative)) IN
     /\ fetched' = Append(fetched, r) /\ tab' = t
     /\ Say(IF r.n \notin DOMAIN TraceNameRanks \/ TraceNameRanks[r.n] # Ev.res.nr THEN "harness-ranks" ELSE AddClass(t, Ev.obs))
  /\ l' = l + 1 /\ Keep

\* the commit rank of a commit string of the stream
CrOf(c) == fetched[CHOOSE j \in 1..Len(fetched) : fetched[j].c = c].cr
BagOf(s) == [x \in Range(s) |-> Cardinality({a \in 1..Len(s) : s[a] = x})]
RawProj(o) == BagOf([a \in 1..Len(o.rows) |-> <<o.rows[a].i, o.rows[a].v, CrOf(o.rows[a].c)>>])
PrefixName(pf) == IF pf = GEO THEN " geomean" ELSE pf
LineProj(o) == [a \in 1..Len(o.rows) |-> <<o.rows[a].i, CrOf(o.rows[a].c),
                  {PrefixName(pf) : pf \in {q \in DOMAIN o.rows[a].cells : ~o.rows[a].cells[q].gap}}>>]
ObsRawProj(ob) == BagOf([a \in 1..Len(ob.rows) |-> <<ob.rows[a].i, ob.rows[a].v, ob.rows[a].cr>>])
ObsLineProj(ob) == [a \in 1..Len(ob.rows) |-> <<ob.rows[a].i, ob.rows[a].cr, ToSet(ob.rows[a].have)>>]
NonDecreasing(s) == \A a, b \in 1..Len(s) : a < b => s[a][1] <= s[b][1]

\* does the observation show the outcome o of the specification?
Shows(ob, o, raw, ordered) ==
  CASE o.kind = "error" -> ob.kind = "error"
    [] o.kind = "nodata" -> ob.kind = "error" \/ (ob.kind = "chart" /\ Len(ob.rows) = 0)
    [] o.kind = "loose" -> ob.kind \in {"error", "chart"}
    [] o.kind = "panic" -> ob.kind = "panic" /\ ob.cls = o.cls
    [] o.kind = "chart" ->
         /\ ob.kind = "chart" /\ ob.columns /\ ob.type = o.type
         /\ IF raw THEN /\ ob.styles
                        /\ \A a \in 1..Len(ob.rows) : ob.rows[a].src >= 0
                        /\ ObsRawProj(ob) = RawProj(o)
            ELSE /\ ob.prefixes = Map(o.prefixes, PrefixName)
                 /\ IF ordered THEN ObsLineProj(ob) = LineProj(o)
                    ELSE /\ BagOf(ObsLineProj(ob)) = BagOf(LineProj(o))
                         /\ NonDecreasing(ObsLineProj(ob))

RequestClass(ob, o, raw) ==
  IF ob.kind \in {"hang", "malformed"} THEN "chart-malformed"
  ELSE LET norm == RunOp(fetched, o, NormL) IN
       IF Shows(ob, norm, raw, FALSE) THEN "ok"
       ELSE LET asb == RunOp(fetched, o, AsBuiltL) IN
            IF asb # norm /\ Shows(ob, asb, raw, TRUE)
            THEN LET devs == SelectSeq(SwitchNames, LAMBDA s : RunOp(fetched, o, Only(s)) # norm)
                     pd == IF ob.kind = "panic" THEN PanicDev(ob.cls) ELSE "other" IN
                 \* the deviation the panic belongs to if it matters here on its own, else the first that matters
                 IF pd # "other" /\ pd \in Range(devs) THEN DevName(pd)
                 ELSE IF devs = <<>> THEN "chart-mismatch" ELSE DevName(devs[1])
            ELSE IF ob.kind = "panic" THEN "panic-" \o ob.cls
            ELSE IF norm.kind # "chart" THEN "outcome-mismatch" ELSE "chart-mismatch"

TraceRequest ==
  /\ l <= Len(TraceLog) /\ Ev.ev = "request"
  /\ Say(RequestClass(Ev.obs, [x |-> Ev.x, raw |-> Ev.raw], Ev.raw))
  /\ l' = l + 1 /\ UNCHANGED <<fetched, tab>> /\ Keep

\* colIndex on an arbitrary column: results that only carry the rank of their value
FakeRes(rk) == [cr |-> rk, kr |-> rk]
ColIndexClass(ranks, got) ==
  LET f == [j \in 1..Len(ranks) |-> FakeRes(ranks[j])]
      p == Idxs(Len(ranks))
      ix(sw) == IndexOp(f, "k", p, sw) IN
  IF got = ix(Normative) THEN "ok"
  ELSE IF got = ix(AsBuilt)
  THEN IF ix(Only("ie")) # ix(Normative) THEN DevName("ie") ELSE DevName("ir")
  ELSE "colindex-mismatch"

TraceColIndex ==
  /\ l <= Len(TraceLog) /\ Ev.ev = "colindex"
  /\ Say(ColIndexClass(Ev.ranks, Ev.idx))
  /\ l' = l + 1 /\ UNCHANGED <<fetched, tab>> /\ Keep

\* the filters on a longer series: outputs y are round(1000 * value)
RECURSIVE SumR(_, _, _)
SumR(s, a, b) == IF a > b THEN 0 ELSE s[a] + SumR(s, a + 1, b)
LoI(i, h) == IF i - h < 1 THEN 1 ELSE i - h
HiI(i, h, n) == IF i + h > n THEN n ELSE i + h
IsMeanOf(y, sum, cnt) == (y * cnt - 1000 * sum) <= cnt /\ (1000 * sum - y * cnt) <= cnt
Within(y, s, a, b) == /\ y >= 1000 * MinOf({s[j] : j \in a..b}) - 1
                      /\ y <= 1000 * MaxOf({s[j] : j \in a..b}) + 1
FilterClass(s, m, k, ob) ==
  LET n == Len(s)  h == (m - 1) \div 2 IN
  IF ob.panic \/ Len(ob.ma) # n \/ Len(ob.kz) # n \/ Len(ob.kza) # n THEN "filter-law"
  ELSE IF /\ \A i \in 1..n : IsMeanOf(ob.ma[i], SumR(s, LoI(i, h), HiI(i, h, n)), HiI(i, h, n) - LoI(i, h) + 1)
          /\ \A i \in 1..n : Within(ob.kz[i], s, LoI(i, k * h), HiI(i, k * h, n))
          /\ (k = 1 => ob.kz = ob.ma)
          /\ \A i \in 1..n : \E a \in 0..h : \E b \in 0..h :
               /\ i - a >= 1 /\ i + b <= n
               /\ IsMeanOf(ob.kza[i], SumR(s, i - a, i + b), a + b + 1)
          /\ ((\A i, j \in 1..n : s[i] = s[j]) => \A i \in 1..n : ob.ma[i] = 1000 * s[i] /\ ob.kz[i] = 1000 * s[i] /\ ob.kza[i] = 1000 * s[i])
          /\ (n <= 2 * h => \A i \in 1..n : ob.kza[i] = 1000 * s[i])
  THEN "ok" ELSE "filter-law"

TraceFilter ==
  /\ l <= Len(TraceLog) /\ Ev.ev = "filter"
  /\ Say(FilterClass(Ev.xs, Ev.m, Ev.k, Ev.obs))
  /\ l' = l + 1 /\ UNCHANGED <<fetched, tab>> /\ Keep

JsClass(e) == IF ~e.obs.panic /\ e.obs.wellformed /\ e.obs.faithful THEN "ok"
              ELSE IF e.nonfinite /\ e.obs.panic THEN DevName("gn") ELSE "chart-malformed"
TraceJs ==
  /\ l <= Len(TraceLog) /\ Ev.ev = "js"
  /\ Say(JsClass(Ev))
  /\ l' = l + 1 /\ UNCHANGED <<fetched, tab>> /\ Keep

PageClass(ob) == IF ob.direct \in {"panic", "hang", "malformed"} THEN "ok"      \* judged by the request events
                 ELSE IF ~ob.panic /\ ob.status = 200 /\ (ob.same \/ ob.error) THEN "ok" ELSE "page-mismatch"
TracePage ==
  /\ l <= Len(TraceLog) /\ Ev.ev = "page"
  /\ Say(PageClass(Ev.obs))
  /\ l' = l + 1 /\ UNCHANGED <<fetched, tab>> /\ Keep

TNext == TraceReset \/ TraceAdd \/ TraceRequest \/ TraceColIndex \/ TraceFilter \/ TraceJs \/ TracePage
TSpec == TInit /\ [][TNext]_tvars

HW == IF l > TLCGet(1) THEN TLCSet(1, l) ELSE TRUE
Post == PrintT("TRACE hwm=" \o ToString(TLCGet(1) - 1) \o " len=" \o ToString(Len(TraceLog)))
ASSUME TLCSet(1, 0)
=============================================================================
