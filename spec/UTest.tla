---------------------------------- MODULE UTest ----------------------------------
(* Mann-Whitney U test on small samples (property C11).                            *)
(*                                                                                 *)
(* The pooled multiset of the two samples is a TIE VECTOR  T = <<t_1 .. t_K>>      *)
(* (sizes of the groups of equal values, in increasing order of value), N = sum T. *)
(* Under the null hypothesis every assignment of the N pooled elements to sample 1 *)
(* (n1 of them) and sample 2 (the other n2 = N - n1) is equally likely.            *)
(*                                                                                 *)
(* Stateful part, one action per step:                                             *)
(*   Tabulate  the distribution of U for (T, n1) is computed twice: declaratively  *)
(*             (hist: brute force over all assignments) and by the two algorithms  *)
(*             of internal/stats/udist.go transcribed on exact integer counts      *)
(*             (cdf, pmf: what UDist.CDF / UDist.PMF return, times C(N, n1)).      *)
(*   Deal(g)   the dealing machine hands the next pooled element (in increasing    *)
(*             order of value) to sample g; terminal states are exactly the        *)
(*             C(N, n1) equally likely assignments.  On terminal states U is       *)
(*             computed by pair counting (declarative) and by rank sums with       *)
(*             average ranks (operational, internal/stats/utest.go).               *)
(*                                                                                 *)
(* All U values are carried doubled (U2x = 2U, an integer).  Probabilities are      *)
(* counts over the common denominator total = C(N, n1).                            *)
(*                                                                                 *)
(* The code as shipped deviates from the definition in three places.  Each is a    *)
(* named switch, FALSE in the normative configurations, TRUE in UTest_asbuilt*.cfg  *)
(* where TLC reproduces the counterexamples:                                       *)
(*   TruncDivBaseCase      the K = 2 base case of the tied recurrence divides with *)
(*                         Go's "/" (truncation toward zero) where the recurrence  *)
(*                         needs floor: CDF(u) > 0 below the smallest attainable U *)
(*                         (T = <<2,1>>, n1 = 1, u = 0: 2/3).                       *)
(*   TwoSidedFromSmallerU  two-sided p = 2 * CDF(min(U1, U2)) (and 1 if U1 = U2):  *)
(*                         with ties and unequal sizes the distribution is skew, so*)
(*                         this is asymmetric under swapping the samples and can   *)
(*                         exceed 1 ({2} vs {1,2}: 2/3, swapped 4/3).              *)
(*   GreaterUsesUMinusOne  P(U >= u) computed as 1 - CDF(u - 1) although U moves   *)
(*                         in half steps when there are ties.                      *)
EXTENDS Integers, Sequences, FiniteSets, TLC

CONSTANTS
  MaxN,                  \* tie vectors with 1 <= N <= MaxN are tabulated
  DealMaxN,              \* the dealing machine runs for N <= DealMaxN
  ExactLimit,            \* MannWhitneyExactLimit      (50 in the code)
  TiesExactLimit,        \* MannWhitneyTiesExactLimit  (25 in the code)
  TruncDivBaseCase, TwoSidedFromSmallerU, GreaterUsesUMinusOne

-----------------------------------------------------------------------------
\* Arithmetic helpers

Min2(a, b) == IF a <= b THEN a ELSE b
Max2(a, b) == IF a >= b THEN a ELSE b

\* TLC evaluates a function constructor lazily (the body is re-evaluated at every
\* application).  Eager(f) is f, tabulated once (the TLC module's @@ normalises its
\* operands to explicit functions).
Eager(f) == f @@ <<>>

\* sum of s[1..k]
PSum(s, k) == LET f[i \in 0..k] == IF i = 0 THEN 0 ELSE f[i-1] + s[i] IN f[k]
Sum(s) == PSum(s, Len(s))

\* sum of F(i) for i in lo..hi (0 when hi < lo)
SumRange(lo, hi, F(_)) ==
  IF hi < lo THEN 0
  ELSE LET f[i \in lo..hi] == IF i = lo THEN F(i) ELSE f[i-1] + F(i) IN f[hi]

\* Go's integer division (truncation toward zero) and floor division, divisor > 0.
\* TLA+'s \div is floor division.
TruncDiv(a, b) == IF a >= 0 THEN a \div b ELSE -((-a) \div b)
FloorDiv(a, b) == a \div b

\* mathChoose of mathx.go (exact for the sizes used here)
Choose(n, k) ==
  IF k = 0 \/ k = n THEN 1
  ELSE IF k < 0 \/ n < k THEN 0
  ELSE LET num[i \in 0..k] == IF i = 0 THEN 1 ELSE num[i-1] * (n - k + i)
           fac[i \in 0..k] == IF i = 0 THEN 1 ELSE fac[i-1] * i
       IN num[k] \div fac[k]

\* all tie vectors of a pool of n elements: the compositions of n
Comps[n \in Nat] ==
  IF n = 0 THEN {<<>>}
  ELSE UNION {{<<h>> \o s : s \in Comps[n-h]} : h \in 1..n}

TieVectors == UNION {Comps[n] : n \in 1..MaxN}

HasTies(t) == \E k \in 1..Len(t) : t[k] > 1
Total(t, n) == Choose(Sum(t), n)
M2(t, n) == 2 * n * (Sum(t) - n)          \* 2 * n1 * n2, the largest conceivable 2U

\* What MannWhitneyUTest must return for sizes (n, N-n) and tie vector t.
Outcome(t, n) ==
  IF n = 0 \/ n = Sum(t) THEN (IF Len(t) = 1 THEN "ErrEither" ELSE "ErrSampleSize")
  ELSE IF Len(t) = 1 THEN "ErrSamplesEqual"
  ELSE "ok"

\* The branch decision of MannWhitneyUTest: exact distribution or normal
\* approximation.  (The approximation itself is a closed-form float formula and
\* is outside this model.)
UseExact(a, b, ties) ==
  IF ties THEN a <= TiesExactLimit /\ b <= TiesExactLimit
  ELSE a <= ExactLimit /\ b <= ExactLimit

-----------------------------------------------------------------------------
\* DECLARATIVE SIDE

\* An assignment class is a vector r with r[k] = how many elements of tie group k
\* go to sample 1; it stands for Weight(t, r) concrete assignments.
RVecs(t, n) ==
  LET K == Len(t)
      rv[k \in 0..K, m \in 0..n] ==
        IF k = 0 THEN (IF m = 0 THEN {<<>>} ELSE {})
        ELSE UNION {{Append(s, x) : s \in rv[k-1, m-x]} : x \in 0..Min2(t[k], m)}
  IN rv[K, n]

Weight(t, r) ==
  LET f[k \in 0..Len(t)] == IF k = 0 THEN 1 ELSE f[k-1] * Choose(t[k], r[k]) IN f[Len(t)]

\* 2U of a class by pair counting: an element of sample 1 in group k beats the
\* elements of sample 2 in lower groups and ties with those in its own group.
U2xOfR(t, r) ==
  LET below2[k \in 1..Len(t)] == IF k = 1 THEN 0 ELSE below2[k-1] + (t[k-1] - r[k-1])
  IN SumRange(1, Len(t), LAMBDA k : r[k] * (2 * below2[k] + (t[k] - r[k])))

\* number of assignments with 2U = v, for v in 0..M2 (brute force)
Hist(t, n) ==
  LET rs == RVecs(t, n)
      us == Eager([r \in rs |-> U2xOfR(t, r)])
      ws == Eager([r \in rs |-> Weight(t, r)])
      RECURSIVE Acc(_)
      Acc(Q) == IF Q = {} THEN 0
                ELSE LET r == CHOOSE r \in Q : TRUE IN ws[r] + Acc(Q \ {r})
  IN Eager([v \in 0..M2(t, n) |-> Acc({r \in rs : us[r] = v})])

HistAt(h, v) == IF v \in DOMAIN h THEN h[v] ELSE 0
HistTop(h) == Cardinality(DOMAIN h) - 1            \* DOMAIN h = 0..M2

LessC(h, u)    == SumRange(0, Min2(u, HistTop(h)), LAMBDA v : h[v])       \* #{U <= u}
GreaterC(h, u) == SumRange(Max2(u, 0), HistTop(h), LAMBDA v : h[v])      \* #{U >= u}
TwoC(h, u, tot) == Min2(tot, 2 * Min2(LessC(h, u), GreaterC(h, u)))

-----------------------------------------------------------------------------
\* OPERATIONAL SIDE, part 1: udist.go

\* Untied distribution, UDist.p: Mann and Whitney's recurrence as dynamic
\* programme.  The code keeps p_{n,m} only for n <= m and mirrors the rest; in
\* counts (times C(n+m, n)) the weights n/(n+m), m/(n+m) disappear:
\*     c_{n,m}(u) = c_{n-1,m}(u-m) + c_{n,m-1}(u).
RECURSIVE Cnm(_, _, _)
Cnm(n, m, u) ==
  IF n = 0 THEN (IF u = 0 THEN 1 ELSE 0)          \* memo[0][0] = 1, rest 0
  ELSE IF u > n * m THEN 0                         \* above ulim: never written
  ELSE (IF u - m >= 0 THEN Cnm(n-1, m, u-m) ELSE 0)                    \* lp[U1-m]
       + (IF n <= m-1 THEN Cnm(n, m-1, u) ELSE Cnm(m-1, n, u))         \* rp[U1], mirrored when n = m

UntiedPMF(a, b, v) ==            \* UDist.PMF, no ties; v = 2U, U integral
  IF v < 0 \/ v >= 1 + 2*a*b THEN 0
  ELSE Cnm(Min2(a, b), Max2(a, b), v \div 2)

UntiedCDF(a, b, v) ==            \* UDist.CDF, no ties
  IF v < 0 THEN 0
  ELSE IF v >= 2*a*b THEN Choose(a+b, a)
  ELSE LET Ui == v \div 2                              \* math.Floor(U)
           flip == Ui >= (a*b + 1) \div 2
           Uj == IF flip THEN a*b - Ui - 1 ELSE Ui
           s == SumRange(0, Uj, LAMBDA x : Cnm(Min2(a, b), Max2(a, b), x))
       IN IF flip THEN Choose(a+b, a) - s ELSE s

\* Tied distribution, makeUmemo: the counting recurrence of Cheung and Klotz.
\* A(k, n, w) = number of ways to choose n of the elements of groups 1..k with
\* 2U <= w.  The code first generates the needed argument triples from k = K
\* downwards, pruning those outside [twoUmin, twoUmax], then fills the table
\* upwards; a pruned or missing argument counts as "all" (above twoUmax) or 0.
\* a[1] = t[1], a[k] = a[k-1] + t[k-1] + t[k]   (the form the code uses)
ACoefRec(t) ==
  LET a[k \in 1..Len(t)] == IF k = 1 THEN t[1] ELSE a[k-1] + t[k-1] + t[k]
  IN Eager([k \in 1..Len(t) |-> a[k]])

TwoUmin(n, t, k, a) ==
  LET f[j \in 0..k] ==
        IF j = 0 THEN <<-(n*n), n>>
        ELSE LET p == f[j-1]
                 take == Min2(p[2], t[j])
             IN <<p[1] + take * a[j], p[2] - take>>
  IN f[k][1]

TwoUmax(n, t, k, a) ==
  LET f[j \in 1..k+1] ==
        IF j = k+1 THEN <<-(n*n), n>>
        ELSE LET p == f[j+1]
                 take == Min2(p[2], t[j])
             IN <<p[1] + take * a[j], p[2] - take>>
  IN f[1][1]

\* The pruning bounds depend on (k, n) only; they are tabulated once per input
\* (b.lo[k][n] = twoUmin(n, t[:k], a), b.hi[k][n] = twoUmax(n, t[:k], a)).
Bounds(t, a, nmax) ==
  [lo |-> Eager([k \in 2..Len(t) |-> Eager([n \in 0..nmax |-> TwoUmin(n, t, k, a)])]),
   hi |-> Eager([k \in 2..Len(t) |-> Eager([n \in 0..nmax |-> TwoUmax(n, t, k, a)])])]

RECURSIVE AOp(_, _, _, _, _, _, _), XOp(_, _, _, _, _, _, _)
AOp(trunc, t, a, b, k, n, w) ==
  IF k = 2 THEN
    \* base case, udist.go:261-271
    LET N2  == t[1] + t[2]
        num == w - n * (t[1] - n)
        lo  == Max2(0, n - t[1])
        hi  == IF trunc THEN TruncDiv(num, N2) ELSE FloorDiv(num, N2)
    IN SumRange(lo, hi, LAMBDA r2 : Choose(t[1], n - r2) * Choose(t[2], r2))
  ELSE
    LET tsum == PSum(t, k-1)
        lo == Max2(0, n - tsum)
        hi == Min2(n, t[k])
    IN SumRange(lo, hi, LAMBDA rk :
         Choose(t[k], rk) * XOp(trunc, t, a, b, k-1, n - rk, w - rk * (a[k] - 2*n + rk)))

\* lookup of A[k][(n, w)]: present iff within the pruning bounds
XOp(trunc, t, a, b, k, n, w) ==
  IF b.lo[k][n] <= w /\ w <= b.hi[k][n] THEN AOp(trunc, t, a, b, k, n, w)
  ELSE IF b.hi[k][n] < w THEN Choose(PSum(t, k), n)
  ELSE 0

\* the values the memo table delivers for every argument w, computed once per input
\* (entry w is makeUmemo(w, n, t)[K][(n, w)])
TiedTable(trunc, t, n) ==
  LET a == ACoefRec(t)
      b == Bounds(t, a, n)
  IN Eager([w \in (-2)..(M2(t, n) + 1) |-> AOp(trunc, t, a, b, Len(t), n, w)])

TiedCDF(tab, t, n, v) ==
  IF v < 0 THEN 0
  ELSE IF v >= M2(t, n) THEN Total(t, n)
  ELSE tab[v]                                   \* makeUmemo(int(2U), ...)[K][(n1, int(2U))]

TiedPMF(tab, t, n, v) ==
  IF v < 0 \/ v >= 1 + M2(t, n) THEN 0
  ELSE tab[v] - tab[v - 1]                      \* difference of two memo tables

\* the grid on which the mass function is defined: half-integers with ties,
\* integers without ("U must be integral", udist.go)
PmfGrid(t, n) ==
  IF HasTies(t) THEN (-1)..(M2(t, n) + 1)
  ELSE {v \in (-2)..(M2(t, n) + 2) : v % 2 = 0}

\* UDist{N1: n, N2: N-n, T: t}.CDF(v/2) and .PMF(v/2) as counts, v = 2U
Tables(trunc, t, n) ==
  IF HasTies(t)
  THEN LET tab == TiedTable(trunc, t, n)
       IN [cdf |-> Eager([v \in (-2)..(M2(t, n) + 1) |-> TiedCDF(tab, t, n, v)]),
           pmf |-> Eager([v \in PmfGrid(t, n) |-> TiedPMF(tab, t, n, v)])]
  ELSE [cdf |-> Eager([v \in (-2)..(M2(t, n) + 1) |-> UntiedCDF(n, Sum(t) - n, v)]),
        pmf |-> Eager([v \in PmfGrid(t, n) |-> UntiedPMF(n, Sum(t) - n, v)])]

CdfTable(trunc, t, n) == Tables(trunc, t, n).cdf

-----------------------------------------------------------------------------
\* OPERATIONAL SIDE, part 2: the p-values of utest.go from a CDF table c
\* (domain -2 .. M2+1), observed u = 2*U1, m2 = 2*n1*n2, tot = C(N, n1).

PLessOp(c, u) == c[u]                                        \* dist.CDF(U1)

PGreaterOp(minusOne, c, u, tot) ==                           \* 1 - dist.CDF(U1 - step)
  tot - c[u - (IF minusOne THEN 2 ELSE 1)]

PTwoOp(fromSmaller, minusOne, c, u, m2, tot) ==
  IF fromSmaller
  THEN (IF 2 * u = m2 THEN tot                               \* U1 == U2: p = 1
        ELSE 2 * c[Min2(u, m2 - u)])                         \* dist.CDF(Usmall) * 2
  ELSE Min2(tot, 2 * Min2(PLessOp(c, u), PGreaterOp(minusOne, c, u, tot)))

-----------------------------------------------------------------------------
\* OPERATIONAL SIDE, part 3: the U statistic of utest.go on a dealt pool.
\* lab[i] in {1, 2} is the sample of pooled element i (elements in increasing
\* order of value; element i lies in tie group GroupOf(t, i)).

GroupOf(t, i) == CHOOSE k \in 1..Len(t) : PSum(t, k-1) < i /\ i <= PSum(t, k)

Count(lab, g, lo, hi) == Cardinality({i \in lo..hi : lab[i] = g})

\* how many of each group went to sample 1
ROf(t, lab) == [k \in 1..Len(t) |-> Count(lab, 1, PSum(t, k-1) + 1, PSum(t, k))]

\* declarative: pairs (first, second) with first > second, plus half per tie
PairU2x(t, lab) ==
  LET S1 == {i \in 1..Len(lab) : lab[i] = 1}
      S2 == {i \in 1..Len(lab) : lab[i] = 2}
  IN 2 * Cardinality({p \in S1 \X S2 : GroupOf(t, p[1]) > GroupOf(t, p[2])})
     + Cardinality({p \in S1 \X S2 : GroupOf(t, p[1]) = GroupOf(t, p[2])})

\* operational: the loop of MannWhitneyUTest over the merged sample.  For the
\* run of equal values starting at 0-based index i (rank1 = i+1) and ending
\* before index j, every member gets the average rank (j + rank1) / 2.
RankSumU2x(t, lab) ==
  LET nn1 == Count(lab, 1, 1, Len(lab))
      R2x == SumRange(1, Len(t), LAMBDA k :
               LET i == PSum(t, k-1)
                   j == PSum(t, k)
                   nx1 == Count(lab, 1, i + 1, j)
               IN nx1 * (j + (i + 1)))
  IN R2x - nn1 * (nn1 + 1)                                   \* 2*(R1 - n1(n1+1)/2)

-----------------------------------------------------------------------------
\* STATE MACHINE

VARIABLES
  T,      \* tie vector of the pool
  n1,     \* size of sample 1
  phase,  \* "in" (input chosen) -> "tab" (distribution tabulated)
  hist,   \* declarative: v -> number of assignments with 2U = v
  cdf,    \* operational: v -> C(N,n1) * UDist.CDF(v/2)
  pmf,    \* operational: v -> C(N,n1) * UDist.PMF(v/2)
  lab     \* dealing machine: samples of the pooled elements dealt so far

vars == <<T, n1, phase, hist, cdf, pmf, lab>>

Init ==
  /\ T \in TieVectors
  /\ n1 \in 0..Sum(T)
  /\ phase = "in" /\ hist = <<>> /\ cdf = <<>> /\ pmf = <<>> /\ lab = <<>>

Tabulate ==
  /\ phase = "in"
  /\ phase' = "tab"
  /\ IF Outcome(T, n1) = "ok"
     THEN /\ hist' = Hist(T, n1)
          /\ LET tb == Tables(TruncDivBaseCase, T, n1)
             IN cdf' = tb.cdf /\ pmf' = tb.pmf
     ELSE UNCHANGED <<hist, cdf, pmf>>
  /\ UNCHANGED <<T, n1, lab>>

Deal(g) ==
  /\ phase = "tab"
  /\ Outcome(T, n1) = "ok"
  /\ Sum(T) <= DealMaxN
  /\ Len(lab) < Sum(T)
  /\ IF g = 1 THEN Count(lab, 1, 1, Len(lab)) < n1
              ELSE Count(lab, 2, 1, Len(lab)) < Sum(T) - n1
  /\ lab' = Append(lab, g)
  /\ UNCHANGED <<T, n1, phase, hist, cdf, pmf>>

Next == Tabulate \/ Deal(1) \/ Deal(2)

Spec == Init /\ [][Next]_vars

-----------------------------------------------------------------------------
\* PROPERTIES

Ok == phase = "tab" /\ Outcome(T, n1) = "ok"
Tabulated == Ok /\ lab = <<>>         \* distribution properties: once per input
Terminal == Ok /\ Len(lab) = Sum(T)
Tot == Total(T, n1)
Top == M2(T, n1)
Attainable == {u \in 0..Top : hist[u] > 0}

TypeOK ==
  /\ T \in TieVectors /\ n1 \in 0..Sum(T) /\ phase \in {"in", "tab"}
  /\ \A i \in 1..Len(lab) : lab[i] \in {1, 2}
  /\ Count(lab, 1, 1, Len(lab)) <= n1 /\ Count(lab, 2, 1, Len(lab)) <= Sum(T) - n1

\* --- dealing machine: U statistic
RankSumEqualsPairCount == Terminal => RankSumU2x(T, lab) = PairU2x(T, lab)

\* the class abstraction is sound: a dealt assignment has the U of its class,
\* and that value carries mass in the tabulated distribution
ClassAbstractionSound ==
  Terminal => /\ U2xOfR(T, ROf(T, lab)) = PairU2x(T, lab)
              /\ hist[PairU2x(T, lab)] > 0
              /\ ROf(T, lab) \in RVecs(T, n1)

\* the two forms of the a coefficients agree (a[k] = 2*sum t[1..k-1] + t[k])
ACoefClosedForm == Tabulated => ACoefRec(T) = [k \in 1..Len(T) |-> 2 * PSum(T, k-1) + T[k]]

\* --- distribution
\* the weighted class counts add up to the number of assignments (Vandermonde)
WeightedCountIsBinomial == Tabulated => SumRange(0, Top, LAMBDA v : hist[v]) = Tot

CdfMatchesBruteForce ==
  Tabulated => \A v \in DOMAIN cdf : cdf[v] = LessC(hist, v)

PmfMatchesBruteForce ==
  Tabulated => \A v \in DOMAIN pmf : pmf[v] = HistAt(hist, v)

PmfSumsToTotal ==
  Tabulated => LET G == DOMAIN pmf
                   RECURSIVE Acc(_)
                   Acc(Q) == IF Q = {} THEN 0 ELSE LET v == CHOOSE v \in Q : TRUE IN pmf[v] + Acc(Q \ {v})
               IN Acc(G) = Tot /\ \A v \in G : pmf[v] >= 0

PmfAccumulatesToCdf ==
  Tabulated => \A v \in DOMAIN pmf \cap DOMAIN cdf :
                 cdf[v] = LET RECURSIVE Acc(_)
                              Acc(Q) == IF Q = {} THEN 0 ELSE LET w == CHOOSE w \in Q : TRUE IN pmf[w] + Acc(Q \ {w})
                          IN Acc({w \in DOMAIN pmf : w <= v})

CdfMonotoneToTotal ==
  Tabulated => /\ \A v \in DOMAIN cdf : v + 1 \in DOMAIN cdf => cdf[v] <= cdf[v+1]
               /\ cdf[-1] = 0 /\ cdf[Top] = Tot

\* --- p-values of the test, for every attainable observed U
LessExact ==
  Tabulated => \A u \in Attainable : PLessOp(cdf, u) = LessC(hist, u)

GreaterExact ==
  Tabulated => \A u \in Attainable : PGreaterOp(GreaterUsesUMinusOne, cdf, u, Tot) = GreaterC(hist, u)

TwoSidedExact ==
  Tabulated => \A u \in Attainable :
     PTwoOp(TwoSidedFromSmallerU, GreaterUsesUMinusOne, cdf, u, Top, Tot) = TwoC(hist, u, Tot)

TwoSidedInUnitInterval ==
  Tabulated => \A u \in Attainable :
     LET p == PTwoOp(TwoSidedFromSmallerU, GreaterUsesUMinusOne, cdf, u, Top, Tot)
     IN 0 <= p /\ p <= Tot

\* swapping the samples: sizes (n2, n1), same tie vector, U' = n1*n2 - U
TwoSidedSwapInvariant ==
  Tabulated =>
    LET n2 == Sum(T) - n1
        c2 == CdfTable(TruncDivBaseCase, T, n2)
        h2 == Hist(T, n2)
    IN \A u \in Attainable :
         /\ h2[Top - u] = hist[u]                               \* mirror image of the distribution
         /\ TwoC(h2, Top - u, Tot) = TwoC(hist, u, Tot)         \* the definition is symmetric
         /\ PTwoOp(TwoSidedFromSmallerU, GreaterUsesUMinusOne, c2, Top - u, Top, Tot)
              = PTwoOp(TwoSidedFromSmallerU, GreaterUsesUMinusOne, cdf, u, Top, Tot)

\* every enumerated input is on the exact side of the switch
SmallIsExact == Ok => UseExact(n1, Sum(T) - n1, HasTies(T))

-----------------------------------------------------------------------------
ASSUME TLCSet(2, <<>>)

\* Counting the terminal states of the dealing machine (UTest_deal.cfg, one
\* worker): register 2 holds  <<T, n1, 2U>> -> number of terminal states seen.
\* Invariants are evaluated once per distinct state, so after exploration the
\* register is the histogram of U over the dealt assignments; it must equal the
\* weighted class enumeration, and its sum C(N, n1).

CountTerminal ==
  IF Terminal
  THEN LET key == <<T, n1, PairU2x(T, lab)>>
           reg == TLCGet(2)
       IN TLCSet(2, IF key \in DOMAIN reg THEN [reg EXCEPT ![key] = @ + 1] ELSE reg @@ (key :> 1))
  ELSE TRUE

DealtHistogramIsWeightedCount ==
  LET reg == TLCGet(2) IN
  \A t \in TieVectors : Sum(t) <= DealMaxN =>
    \A n \in 1..(Sum(t) - 1) : Len(t) >= 2 =>
      LET h == Hist(t, n) IN
      /\ \A v \in DOMAIN h : (IF <<t, n, v>> \in DOMAIN reg THEN reg[<<t, n, v>>] ELSE 0) = h[v]
      /\ SumRange(0, M2(t, n), LAMBDA v : IF <<t, n, v>> \in DOMAIN reg THEN reg[<<t, n, v>>] ELSE 0) = Choose(Sum(t), n)

=============================================================================
