SPECIFICATION Spec
CONSTANTS
  MaxN = 5
  DealMaxN = 0
  ExactLimit = 50
  TiesExactLimit = 25
  TruncDivBaseCase = FALSE
  TwoSidedFromSmallerU = FALSE
  GreaterUsesUMinusOne = TRUE
INVARIANTS
  TypeOK ACoefClosedForm WeightedCountIsBinomial
  CdfMatchesBruteForce PmfMatchesBruteForce PmfSumsToTotal PmfAccumulatesToCdf CdfMonotoneToTotal
  LessExact GreaterExact TwoSidedExact TwoSidedInUnitInterval TwoSidedSwapInvariant SmallIsExact
CHECK_DEADLOCK FALSE
