SPECIFICATION Spec
CONSTANTS
  MaxN = 5
  DealMaxN = 0
  ExactLimit = 50
  TiesExactLimit = 25
  TruncDivBaseCase = TRUE
  TwoSidedFromSmallerU = FALSE
  GreaterUsesUMinusOne = FALSE
INVARIANTS
  TypeOK ACoefClosedForm WeightedCountIsBinomial
  CdfMatchesBruteForce PmfMatchesBruteForce PmfSumsToTotal PmfAccumulatesToCdf CdfMonotoneToTotal
  LessExact GreaterExact TwoSidedExact TwoSidedInUnitInterval TwoSidedSwapInvariant SmallIsExact
CHECK_DEADLOCK FALSE
