SPECIFICATION Spec
CONSTANTS
  MaxN = 6
  DealMaxN = 6
  ExactLimit = 50
  TiesExactLimit = 25
  TruncDivBaseCase = FALSE
  TwoSidedFromSmallerU = FALSE
  GreaterUsesUMinusOne = FALSE
INVARIANTS
  TypeOK RankSumEqualsPairCount ClassAbstractionSound CountTerminal
POSTCONDITION DealtHistogramIsWeightedCount
CHECK_DEADLOCK FALSE
