------------------------------- MODULE UTest_gen -------------------------------
(* Generator wrapper (mode G) for UTest: every input (tie vector T, size n1) is   *)
(* tabulated as in UTest and printed as one JSON record.  A record carries        *)
(*   - the outcome class (ok / which error),                                      *)
(*   - the declarative distribution hist (number of assignments per 2U) and total,*)
(*   - one entry per assignment class r (how many of each tie group go to sample  *)
(*     1) with its 2U by pair counting and the three p-value counts               *)
(*     less = #{U <= u}, greater = #{U >= u}, two = min(total, 2 min(less,greater)).*)
(* These EXPECTED values come from the declarative side only.  Next to them the   *)
(* record carries what the as-built deviation switches predict (ab, ab_cdf,       *)
(* ab_pmf): the harness uses them only to name the defect class of a deviation    *)
(* (a wrong value that no as-built switch predicts is a different failure).       *)
(* The driver expands a record into replay cases: one "dist" case per (T, n1) and *)
(* one case per (T, n1, class, alternative).                                      *)
EXTENDS UTest, Json, SequencesExt

\* as-built tables (only the K = 2 tied base case differs)
AbAffected == Len(T) = 2 /\ HasTies(T)
TabAB == IF AbAffected THEN Tables(TRUE, T, n1) ELSE [cdf |-> cdf, pmf |-> pmf]

ClassRec(r, cT) ==
  LET u == U2xOfR(T, r) IN
  [ r |-> r, u |-> u, w |-> Weight(T, r),
    less |-> LessC(hist, u), greater |-> GreaterC(hist, u), two |-> TwoC(hist, u, Tot),
    \* predictions of the deviation switches; digits = fromSmaller, minusOne, truncDiv
    ab |-> [ g10  |-> PGreaterOp(TRUE,  cdf, u, Tot),
             g01  |-> PGreaterOp(FALSE, cT,  u, Tot),
             g11  |-> PGreaterOp(TRUE,  cT,  u, Tot),
             t100 |-> PTwoOp(TRUE,  FALSE, cdf, u, Top, Tot),
             t101 |-> PTwoOp(TRUE,  FALSE, cT,  u, Top, Tot),
             t010 |-> PTwoOp(FALSE, TRUE,  cdf, u, Top, Tot),
             t001 |-> PTwoOp(FALSE, FALSE, cT,  u, Top, Tot),
             t011 |-> PTwoOp(FALSE, TRUE,  cT,  u, Top, Tot),
             l1   |-> PLessOp(cT, u) ] ]

OkCase ==
  LET tb == TabAB
      cT == tb.cdf IN
  [ tag |-> "case", T |-> T, n1 |-> n1, outcome |-> "ok", total |-> Tot, top |-> Top,
    ties |-> HasTies(T), exact |-> UseExact(n1, Sum(T) - n1, HasTies(T)),
    hist |-> [i \in 1..(Top + 1) |-> hist[i-1]],
    ab_cdf |-> IF AbAffected THEN [i \in 1..(Top + 1) |-> cT[i-1]] ELSE <<>>,
    ab_pmf |-> IF AbAffected THEN [i \in 1..(Top + 1) |-> tb.pmf[i-1]] ELSE <<>>,
    classes |-> SetToSeq({ClassRec(r, cT) : r \in RVecs(T, n1)}) ]

ErrCase == [ tag |-> "case", T |-> T, n1 |-> n1, outcome |-> Outcome(T, n1) ]

EmitCase ==
  (phase = "tab" /\ lab = <<>>) =>
     PrintT(ToJson(IF Outcome(T, n1) = "ok" THEN OkCase ELSE ErrCase))

\* the branch decision around the two limits (the large-sample clause itself is
\* evaluated by the harness, outside the model)
\* ... and sizes well inside / well beyond them (two large tie-free samples inside the exact
\* limit have more than 2^63 arrangements; the statement's samples go up to 70 values)
BranchSizes == {TiesExactLimit - 1, TiesExactLimit, TiesExactLimit + 1,
                ExactLimit - 1, ExactLimit, ExactLimit + 1} \cup {5, 14, 38, 44, 60, 70}
ASSUME PrintT(ToJson([ tag |-> "branch",
  rows |-> SetToSeq({[n1 |-> a, n2 |-> b, ties |-> tt, exact |-> UseExact(a, b, tt)] :
                        <<a, b, tt>> \in BranchSizes \X BranchSizes \X BOOLEAN }) ]))
=============================================================================
