SPECIFICATION Spec
CONSTANTS
  MaxN = 1
  DealMaxN = 0
  ExactLimit = 50
  TiesExactLimit = 30
  TruncDivBaseCase = FALSE
  TwoSidedFromSmallerU = FALSE
  GreaterUsesUMinusOne = FALSE
INVARIANTS EmitCase
CHECK_DEADLOCK FALSE
