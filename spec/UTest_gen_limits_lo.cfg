SPECIFICATION Spec
CONSTANTS
  MaxN = 1
  DealMaxN = 0
  ExactLimit = 8
  TiesExactLimit = 5
  TruncDivBaseCase = FALSE
  TwoSidedFromSmallerU = FALSE
  GreaterUsesUMinusOne = FALSE
INVARIANTS EmitCase
CHECK_DEADLOCK FALSE
