SPECIFICATION Spec
CONSTANTS
  MaxN = 10
  DealMaxN = 0
  ExactLimit = 50
  TiesExactLimit = 25
  TruncDivBaseCase = FALSE
  TwoSidedFromSmallerU = FALSE
  GreaterUsesUMinusOne = FALSE
INVARIANTS EmitCase
CHECK_DEADLOCK FALSE
