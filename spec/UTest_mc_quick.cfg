SPECIFICATION Spec
CONSTANTS
  MaxN = 7
  DealMaxN = 7
  ExactLimit = 50
  TiesExactLimit = 25
  TruncDivBaseCase = FALSE
  TwoSidedFromSmallerU = FALSE
  GreaterUsesUMinusOne = FALSE
INVARIANTS
  TypeOK RankSumEqualsPairCount ClassAbstractionSound ACoefClosedForm
  WeightedCountIsBinomial CdfMatchesBruteForce PmfMatchesBruteForce PmfSumsToTotal
  PmfAccumulatesToCdf CdfMonotoneToTotal LessExact GreaterExact TwoSidedExact
  TwoSidedInUnitInterval TwoSidedSwapInvariant SmallIsExact
CHECK_DEADLOCK FALSE
