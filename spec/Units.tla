---------------------------------- MODULE Units ----------------------------------
(* Normalisation of benchmark units to base units (property C04).                  *)
(*                                                                                 *)
(* A unit is a sequence of one-character strings.  The separators are "/", "*", "-" *)
(* and blanks (" " stands for every Unicode space; recorded traces use "sp1".."sp4" *)
(* for the particular blanks they contain).  Everything else is a component         *)
(* character; "n","s","M","B" are the ones the rule talks about, "x" is the         *)
(* representative of "any other character".  Offsets count symbols; that the code's *)
(* byte offsets stay consistent for multi-byte runes is exercised by the harness,   *)
(* which concretises "x" and " " with multi-byte runes.                             *)
(*                                                                                 *)
(* Two definitions of tidying are given and TLC checks that they agree on every     *)
(* unit up to MaxLen symbols:                                                       *)
(*                                                                                 *)
(*   DECLARATIVE (from the property statement): the unit is cut into components at  *)
(*   separators; a component is in the numerator unless the nearest "/" or "*" to   *)
(*   its left is a "/"; every numerator component equal to ns / MB becomes sec / B  *)
(*   and contributes -9 / +6 to the decimal exponent of the scale factor.           *)
(*                                                                                 *)
(*   OPERATIONAL (transcription of benchunit/parse.go and benchunit/tidy.go): the   *)
(*   literal fast-path table, the substring pre-test, the tokenizer with its        *)
(*   rest / rpos / pos / denom bookkeeping (0-based byte offsets), the edit list    *)
(*   and its application from right to left.                                        *)
(*                                                                                 *)
(* The reader rule (benchfmt/reader.go, parseBenchmarkLine) is modelled on top:     *)
(* what is stored for a measurement "value unit" for each IEEE class of value.      *)
(*                                                                                 *)
(* KeepRawUnitWhenValueUnchanged = TRUE re-enables the deviation of the code as     *)
(* shipped: the reader decides whether to store the tidied pair by comparing the    *)
(* scaled VALUE with the written value, so 0, -0, +Inf and -Inf (x * 1e-9 == x)     *)
(* stay under the written unit and one metric appears under two unit names          *)
(* (Units_asbuilt.cfg makes TLC exhibit it).                                        *)
EXTENDS Integers, Sequences, FiniteSets, TLC

CONSTANTS
  Sym,                             \* alphabet the explored units are built from
  MaxLen,                          \* explored units have at most this many symbols
  WithNamed,                       \* also explore the named units below (outside Sym)
  KeepRawUnitWhenValueUnchanged    \* as-built deviation of the reader (normative: FALSE)

VARIABLE u                         \* the unit under consideration

NS  == <<"n", "s">>
MB  == <<"M", "B">>
SEC == <<"s", "e", "c">>
BB  == <<"B">>

-----------------------------------------------------------------------------
\* DECLARATIVE definition

\* " " stands for every Unicode space in generated cases; recorded traces name the
\* blanks they used (space, tab, U+00A0, U+2003, U+3000) so that their order is visible
Spaces == {" ", "sp1", "sp2", "sp3", "sp4"}
Seps == {"/", "*", "-"} \cup Spaces
IsSep(c) == c \in Seps

MaxOf(S) == CHOOSE x \in S : \A y \in S : y <= x

\* components: maximal runs <<first, last>> of non-separator symbols - a run starts
\* where a non-separator has no non-separator to its left and extends to the first
\* position that is the last one or is followed by a separator
MinOf(S) == CHOOSE x \in S : \A y \in S : x <= y
CompStarts(un) == {i \in 1..Len(un) : ~IsSep(un[i]) /\ (i = 1 \/ IsSep(un[i - 1]))}
Comps(un) ==
  {<<i, MinOf({j \in i..Len(un) : j = Len(un) \/ IsSep(un[j + 1])})>> : i \in CompStarts(un)}

\* position i is in the numerator: no "/" or "*" to its left, or the nearest one is "*"
InNumerator(un, i) ==
  LET S == {k \in 1..(i - 1) : un[k] \in {"/", "*"}}
  IN S = {} \/ un[MaxOf(S)] = "*"

CompWord(un, c) == SubSeq(un, c[1], c[2])

\* the components the rule rewrites: in the numerator and equal to ns / MB
RewrComps(un) == {c \in Comps(un) : InNumerator(un, c[1]) /\ CompWord(un, c) \in {NS, MB}}
NsComps(un) == {c \in RewrComps(un) : un[c[1]] = "n"}
MbComps(un) == {c \in RewrComps(un) : un[c[1]] = "M"}

\* The same, position by position (this is the form TLC evaluates; RewrStartsAgree
\* below checks that it describes the components above): a two-symbol component
\* equal to w starts at i
StartsComp(un, i) == ~IsSep(un[i]) /\ (i = 1 \/ IsSep(un[i - 1]))
EndsComp(un, i)   == ~IsSep(un[i]) /\ (i = Len(un) \/ IsSep(un[i + 1]))
RewrAt(un, i, w) ==
  /\ i >= 1 /\ i + 1 <= Len(un)
  /\ un[i] = w[1] /\ un[i + 1] = w[2]
  /\ StartsComp(un, i) /\ EndsComp(un, i + 1)
  /\ InNumerator(un, i)

\* the unit with every such component replaced (everything else stays in place), and
\* the decimal exponent of the scale factor: -9 per ns, +6 per MB
TidyDecl(un) ==
  LET piece(i) == IF RewrAt(un, i, NS) THEN SEC
                  ELSE IF RewrAt(un, i, MB) THEN BB
                  ELSE IF RewrAt(un, i - 1, NS) \/ RewrAt(un, i - 1, MB) THEN <<>>
                  ELSE <<un[i]>>
      f[i \in 0..Len(un)] == IF i = 0 THEN <<>> ELSE f[i - 1] \o piece(i)
  IN [unit |-> f[Len(un)],
      e |-> 6 * Cardinality({i \in 1..Len(un) : RewrAt(un, i, MB)})
            - 9 * Cardinality({i \in 1..Len(un) : RewrAt(un, i, NS)})]

DeclUnit(un) == TidyDecl(un).unit
DeclExp(un) == TidyDecl(un).e
DeclCount(un) == Cardinality(RewrComps(un))

-----------------------------------------------------------------------------
\* OPERATIONAL transcription (parse.go: parser.next; tidy.go: tidyUnit, tidyUnitUncached)
\* Offsets are 0-based as in the Go code; rest[i+1] is Go's rest[i].

IsSpaceRune(r) == r \in Spaces      \* unicode.IsSpace

NewParser(un) == [rest |-> un, rpos |-> 0, tok |-> <<>>, pos |-> 0, denom |-> FALSE]

\* "Consume separators": for i, r := range p.rest { ... }
RECURSIVE SkipSeps(_, _, _)
SkipSeps(rest, i, denom) ==
  IF i >= Len(rest) THEN [found |-> FALSE, i |-> i, denom |-> denom]
  ELSE LET r == rest[i + 1] IN
       IF r = "*" THEN SkipSeps(rest, i + 1, FALSE)
       ELSE IF r = "/" THEN SkipSeps(rest, i + 1, TRUE)
       ELSE IF ~(r = "-" \/ IsSpaceRune(r)) THEN [found |-> TRUE, i |-> i, denom |-> denom]
       ELSE SkipSeps(rest, i + 1, denom)

\* "Consume until separator": end := len(p.rest); for i, r := range p.rest { if sep { end = i; break } }
RECURSIVE TokEnd(_, _)
TokEnd(rest, i) ==
  IF i >= Len(rest) THEN Len(rest)
  ELSE LET r == rest[i + 1] IN
       IF r = "*" \/ r = "/" \/ r = "-" \/ IsSpaceRune(r) THEN i
       ELSE TokEnd(rest, i + 1)

\* Go's s[a:] and s[:b]
From(s, a) == SubSeq(s, a + 1, Len(s))
Upto(s, b) == SubSeq(s, 1, b)

ParserNext(p) ==
  LET s == SkipSeps(p.rest, 0, p.denom) IN
  IF ~s.found
  THEN [ok |-> FALSE, p |-> [p EXCEPT !.rest = <<>>, !.denom = s.denom]]
  ELSE LET rpos1 == p.rpos + s.i
           rest1 == From(p.rest, s.i)
           end   == TokEnd(rest1, 0)
       IN [ok |-> TRUE,
           p  |-> [rest |-> From(rest1, end), rpos |-> rpos1 + end,
                   tok |-> Upto(rest1, end), pos |-> rpos1, denom |-> s.denom]]

\* for p.next() { if p.denom { continue }; switch p.tok { case "ns": ...; case "MB": ... } }
RECURSIVE ParseLoop(_, _, _)
ParseLoop(p, edits, e) ==
  LET r == ParserNext(p) IN
  IF ~r.ok THEN [edits |-> edits, e |-> e]
  ELSE IF r.p.denom THEN ParseLoop(r.p, edits, e)
  ELSE IF r.p.tok = NS THEN ParseLoop(r.p, Append(edits, [pos |-> r.p.pos, len |-> 2, replace |-> SEC]), e - 9)
  ELSE IF r.p.tok = MB THEN ParseLoop(r.p, Append(edits, [pos |-> r.p.pos, len |-> 2, replace |-> BB]), e + 6)
  ELSE ParseLoop(r.p, edits, e)

\* for i := len(edits)-1; i >= 0; i-- { unit = unit[:e.pos] + e.replace + unit[e.pos+e.len:] }
ApplyEdits(un, edits) ==
  LET n == Len(edits)
      f[j \in 0..n] ==
        IF j = 0 THEN un
        ELSE LET ed == edits[n - j + 1]
                 cur == f[j - 1]
             IN Upto(cur, ed.pos) \o ed.replace \o From(cur, ed.pos + ed.len)
  IN f[n]

TidyUncached(un) ==
  LET r == ParseLoop(NewParser(un), <<>>, 0)
  IN [unit |-> ApplyEdits(un, r.edits), e |-> r.e]

Contains(un, w) == \E i \in 1..(Len(un) - Len(w) + 1) : SubSeq(un, i, i + Len(w) - 1) = w

\* the literal table at the top of tidyUnit
FastPaths ==
  { [unit |-> <<"n","s","/","o","p">>, tidied |-> <<"s","e","c","/","o","p">>, e |-> -9],
    [unit |-> <<"M","B","/","s">>,     tidied |-> <<"B","/","s">>,             e |-> 6],
    [unit |-> <<"B","/","o","p">>,     tidied |-> <<"B","/","o","p">>,         e |-> 0],
    [unit |-> <<"a","l","l","o","c","s","/","o","p">>,
     tidied |-> <<"a","l","l","o","c","s","/","o","p">>,                       e |-> 0] }

\* tidyUnit; the cache between the pre-test and tidyUnitUncached stores exactly what
\* tidyUnitUncached returned for that string, so as a function it is the identity
\* (the harness exercises it with repeated and concurrent calls).
TidyOp(un) ==
  IF \E fp \in FastPaths : fp.unit = un
  THEN LET fp == CHOOSE x \in FastPaths : x.unit = un IN [unit |-> fp.tidied, e |-> fp.e]
  ELSE IF ~(Contains(un, NS) \/ Contains(un, MB)) THEN [unit |-> un, e |-> 0]
  ELSE TidyUncached(un)

-----------------------------------------------------------------------------
\* READER rule (reader.go: tidyVal, tidyUnit := benchunit.Tidy(val, unit); ...)
\* A measurement value is a token carrying its IEEE class.

ValueClasses == {"zero", "negzero", "finite", "sub", "big", "posinf", "neginf", "nan"}

\* does  val * 10^e == val  hold in float64 arithmetic for a value of this class?
\* (finite non-zero values change under any factor other than 1; a subnormal times
\* 1e-9 is 0, 1e308 times 1e6 is +Inf; NaN is unequal to itself)
ValueUnchanged(cls, e) ==
  /\ cls # "nan"
  /\ (e = 0 \/ cls \in {"zero", "negzero", "posinf", "neginf"})

\* what the reader stores for "value un": the unit, the decimal exponent by which the
\* stored value was scaled, and whether the pair as written is kept alongside
ReaderStoreT(sw, un, t, cls) ==       \* t = Tidy(un), computed by the caller
  LET asWritten == IF sw THEN ValueUnchanged(cls, t.e)    \* as shipped: if tidyVal == val
                   ELSE t.unit = un                       \* normative: decide by unit
  IN IF asWritten THEN [unit |-> un, e |-> 0, orig |-> FALSE]
     ELSE [unit |-> t.unit, e |-> t.e, orig |-> TRUE]

ReaderStoreSw(sw, un, cls) == ReaderStoreT(sw, un, TidyOp(un), cls)
ReaderStore(un, cls) == ReaderStoreSw(KeepRawUnitWhenValueUnchanged, un, cls)

\* unit metadata is keyed by the tidied unit, at declaration and at lookup
MetaKey(un) == TidyOp(un).unit

\* a ".unit:q" filter term matches a stored measurement if q is its unit or its original unit
FilterMatches(q, written, stored) == q = stored.unit \/ (stored.orig /\ q = written)

-----------------------------------------------------------------------------
\* The named units of the testing package and of the repository's own table test;
\* they leave the alphabet and are explored in addition when WithNamed is set.
NamedUnits ==
  { <<"n","s","/","o","p">>, <<"M","B","/","s">>, <<"B","/","o","p">>,
    <<"a","l","l","o","c","s","/","o","p">>,
    <<"n","s","/","o","p","*","n","s","/","o","p">>,
    <<"x","/","n","s","*","n","s">>,
    <<"M","B","*","M","B","/","n","s">>,
    <<"n","s","-","M","B"," ","n","s","/","M","B","*","M","B">>,
    <<"t","o","n","s","/","M","B","s","-","n","s">>,
    <<"s","e","c","/","o","p">>, <<"B","/","s">>,
    <<"n","s","/","n","s","/","n","s">>,
    <<"n","s","-","n","s","-","M","B","-","M","B","-","M","B">> }

Init == u \in {<<>>} \cup (IF WithNamed THEN NamedUnits ELSE {})

Next ==
  /\ Len(u) < MaxLen
  /\ \A i \in 1..Len(u) : u[i] \in Sym
  /\ \E c \in Sym : u' = Append(u, c)

Spec == Init /\ [][Next]_u

-----------------------------------------------------------------------------
\* Properties.  Each is stated over t = TidyOp(u) (operational) and d = TidyDecl(u)
\* (declarative) so that AllProperties can evaluate the two once per state.

Store(t, c) == ReaderStoreT(KeepRawUnitWhenValueUnchanged, u, t, c)
Same(un) == [unit |-> un, e |-> 0]

\* the code's algorithm computes the declarative definition
PDeclEqOp(t, d) == t = d

\* the fast-path table agrees with the declarative definition (checked once)
FastPathsSound == \A fp \in FastPaths : TidyDecl(fp.unit) = [unit |-> fp.tidied, e |-> fp.e]
ASSUME FastPathsSound

\* normalising an already normalised unit changes nothing
PIdempotent(t, d) == TidyOp(t.unit) = Same(t.unit) /\ TidyDecl(d.unit) = Same(d.unit)

\* nothing to normalise => untouched, factor 1 (in particular ns / MB in the
\* denominator or as part of a longer word)
\* (RewrStarts: where the components to rewrite start; RewrStartsAgree ties it to Comps)
RewrStarts(un) == {i \in 1..Len(un) : RewrAt(un, i, NS) \/ RewrAt(un, i, MB)}
PPassthrough(t, d) == (RewrStarts(u) = {}) => t = Same(u)

\* the position-wise form of the declarative definition describes the components
RewrStartsAgree ==
  \A rw \in {RewrComps(u)} :
    /\ {c[1] : c \in {x \in rw : u[x[1]] = "n"}} = {i \in 1..Len(u) : RewrAt(u, i, NS)}
    /\ {c[1] : c \in {x \in rw : u[x[1]] = "M"}} = {i \in 1..Len(u) : RewrAt(u, i, MB)}
    /\ \A c \in rw : c[2] = c[1] + 1

\* and conversely something to normalise => the unit is rewritten
PChangedIffRewritten(t, d) == (d.unit # u) <=> (RewrStarts(u) # {})

\* for one written unit all values are stored under ONE unit name ...
POneNamePerMetric(t, d) ==
  \A name \in {Store(t, "finite").unit} : \A c \in ValueClasses : Store(t, c).unit = name

\* ... namely the tidied unit, scaled accordingly, for every class of value
PStoredIsTidied(t, d) ==
  \A c \in ValueClasses : Store(t, c).unit = d.unit /\ Store(t, c).e = d.e

\* the pair as written is kept alongside iff tidying changed the unit
POrigKeptIffChanged(t, d) ==
  \A c \in ValueClasses : Store(t, c).orig <=> (d.unit # u)

\* metadata declared under either spelling is found under either spelling
\* (MetaKey(u) is t.unit)
PMetadataEitherSpelling(t, d) == MetaKey(d.unit) = t.unit

\* a filter naming the written or the base unit matches the measurement
PFilterEitherSpelling(t, d) ==
  \A c \in ValueClasses : FilterMatches(u, u, Store(t, c)) /\ FilterMatches(d.unit, u, Store(t, c))

DeclEqOp               == PDeclEqOp(TidyOp(u), TidyDecl(u))
Idempotent             == PIdempotent(TidyOp(u), TidyDecl(u))
Passthrough            == PPassthrough(TidyOp(u), TidyDecl(u))
ChangedIffRewritten    == PChangedIffRewritten(TidyOp(u), TidyDecl(u))
OneNamePerMetric       == POneNamePerMetric(TidyOp(u), TidyDecl(u))
StoredIsTidied         == PStoredIsTidied(TidyOp(u), TidyDecl(u))
OrigKeptIffChanged     == POrigKeptIffChanged(TidyOp(u), TidyDecl(u))
MetadataEitherSpelling == PMetadataEitherSpelling(TidyOp(u), TidyDecl(u))
FilterEitherSpelling   == PFilterEitherSpelling(TidyOp(u), TidyDecl(u))

TypeOK == Len(u) <= 16

\* the conjunction of all of the above with one evaluation of t and d per state
\* (used by the thorough configuration; a failure is broken down by re-running
\* the named invariants)
AllProperties ==
  \A t \in {TidyOp(u)} : \A d \in {TidyDecl(u)} :       \* bound once per state
     /\ TypeOK /\ RewrStartsAgree
     /\ PDeclEqOp(t, d) /\ PIdempotent(t, d) /\ PPassthrough(t, d) /\ PChangedIffRewritten(t, d)
     /\ POneNamePerMetric(t, d) /\ PStoredIsTidied(t, d) /\ POrigKeptIffChanged(t, d)
     /\ PMetadataEitherSpelling(t, d) /\ PFilterEitherSpelling(t, d)

=============================================================================
