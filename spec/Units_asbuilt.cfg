SPECIFICATION Spec
CONSTANTS
  Sym = {"n", "s", "M", "B", "x", "/", "*", "-", " "}
  MaxLen = 5
  WithNamed = FALSE
  KeepRawUnitWhenValueUnchanged = TRUE
INVARIANTS TypeOK DeclEqOp Idempotent Passthrough ChangedIffRewritten RewrStartsAgree OneNamePerMetric
CHECK_DEADLOCK FALSE
