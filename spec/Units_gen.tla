-------------------------------- MODULE Units_gen --------------------------------
(* Generator wrapper (mode G) for Units: the same exploration as Units.tla; for    *)
(* every explored unit that is wanted it prints one replay case                     *)
(*                                                                                  *)
(*   u        the written unit (symbols)                                            *)
(*   unit, e  what tidying must give: DECLARATIVE definition (TidyDecl)             *)
(*   k        number of rewritten components (the harness derives its ulp budget)   *)
(*   changed  unit # u                                                              *)
(*   blank    the unit contains a blank, so no benchmark line can carry it          *)
(*   raw      value classes for which the AS-BUILT reader model                     *)
(*            (KeepRawUnitWhenValueUnchanged) stores the written unit instead of    *)
(*            the tidied one - used only to name that deviation precisely           *)
(*                                                                                  *)
(* The reader rule is the same for every value class (ValueClasses, printed once    *)
(* as the "meta" record): stored unit = `unit`, value scaled by 10^e, the pair as   *)
(* written kept alongside when `changed`.                                           *)
EXTENDS Units, Json, SequencesExt

CONSTANTS
  GenFull,   \* every unit up to this length is emitted
  GenSub     \* units containing "ns" or "MB" as a substring are emitted up to this length;
             \* longer ones only with two or more such substrings

CountSub(un) == Cardinality({i \in 1..(Len(un) - 1) : SubSeq(un, i, i + 1) \in {NS, MB}})

Wanted ==
  \/ Len(u) <= GenFull
  \/ (Len(u) <= GenSub /\ CountSub(u) >= 1)
  \/ CountSub(u) >= 2
  \/ u \in NamedUnits

Case ==
  LET d == TidyDecl(u)
      t == TidyOp(u)
  IN [tag |-> "case", u |-> u, unit |-> d.unit, e |-> d.e,
      k |-> DeclCount(u),
      changed |-> d.unit # u,
      blank |-> \E i \in 1..Len(u) : u[i] \in Spaces,
      raw |-> SetToSeq({c \in ValueClasses : ReaderStoreT(TRUE, u, t, c).unit # d.unit})]

Emit == IF Wanted THEN PrintT(ToJson(Case)) ELSE TRUE

ASSUME PrintT(ToJson([tag |-> "meta", classes |-> SetToSeq(ValueClasses)]))
=============================================================================
