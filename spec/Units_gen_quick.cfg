SPECIFICATION Spec
CONSTANTS
  Sym = {"n", "s", "M", "B", "x", "/", "*", "-", " "}
  MaxLen = 5
  WithNamed = TRUE
  KeepRawUnitWhenValueUnchanged = FALSE
  GenFull = 5
  GenSub = 5
INVARIANTS Emit
CHECK_DEADLOCK FALSE
