SPECIFICATION Spec
CONSTANTS
  Sym = {"n", "s", "M", "B", "x", "/", "*", "-", " "}
  MaxLen = 7
  WithNamed = TRUE
  KeepRawUnitWhenValueUnchanged = FALSE
  GenFull = 5
  GenSub = 6
INVARIANTS Emit
CHECK_DEADLOCK FALSE
