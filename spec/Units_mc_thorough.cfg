SPECIFICATION Spec
CONSTANTS
  Sym = {"n", "s", "M", "B", "x", "/", "*", "-", " "}
  MaxLen = 7
  WithNamed = TRUE
  KeepRawUnitWhenValueUnchanged = FALSE
INVARIANTS AllProperties
CHECK_DEADLOCK FALSE
