SPECIFICATION Spec
CONSTANTS
  Sym = {"n", "s", "M", "B", "x", "/", "*", "-", " "}
  MaxLen = 7
  WithNamed = TRUE
  KeepRawUnitWhenValueUnchanged = FALSE
INVARIANTS TypeOK DeclEqOp Idempotent Passthrough ChangedIffRewritten RewrStartsAgree OneNamePerMetric StoredIsTidied OrigKeptIffChanged MetadataEitherSpelling FilterEitherSpelling
CHECK_DEADLOCK FALSE
