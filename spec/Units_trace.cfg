SPECIFICATION TSpec
CONSTANTS
  Sym = {}
  MaxLen = 0
  WithNamed = FALSE
  KeepRawUnitWhenValueUnchanged = FALSE
INVARIANTS DeclEqOp Idempotent
CONSTRAINT HW
POSTCONDITION Post
CHECK_DEADLOCK FALSE
