------------------------------- MODULE Units_trace -------------------------------
(* Mode T for Units: the specification as an oracle for observations recorded from  *)
(* the real code on inputs far beyond the exhaustive bound (units of up to 30       *)
(* runes with multi-byte runes, several kinds of blank and invalid bytes, tidied    *)
(* repeatedly and concurrently; the same units read through benchfmt.Reader with a  *)
(* value of every IEEE class).  Every event is a one-step trace:                    *)
(*                                                                                  *)
(*   tidy  u, unit, e          benchunit.Tidy(1, u) returned (10^e, unit)           *)
(*   read  u, cls, unit, orig, e, scaled                                            *)
(*                             the reader stored `unit` for "value u" with value of *)
(*                             class cls; orig says whether the pair as written was *)
(*                             kept ("written"), absent ("none") or wrong ("other");*)
(*                             scaled: stored value = written value * 10^e          *)
(*                                                                                  *)
(* Symbols are tokens: separators and ASCII characters as themselves, the blanks    *)
(* as " ", "sp1".."sp4", every other rune or invalid byte as an opaque token.       *)
(* An event the DECLARATIVE definition does not accept is printed as a "reject"     *)
(* record (the run continues, so that every deviation is listed); the operational   *)
(* transcription is cross-checked on the same units by the invariant DeclEqOp.      *)
EXTENDS Units, Json

TraceLog == ndJsonDeserialize("trace.ndjson")

VARIABLE l
tvars == <<u, l>>

Ev == TraceLog[l]

TidyOK(ev) ==
  LET d == TidyDecl(ev.u) IN ev.unit = d.unit /\ ev.e = d.e

\* the reader rule as the property states it: the stored unit is the tidied unit for
\* every value class and the value is scaled accordingly; the pair as written is kept
\* alongside when the unit changed (when it did not, an "original" identical to the
\* pair itself is not forbidden)
ReadOK(ev) ==
  LET d == TidyDecl(ev.u)
      changed == d.unit # ev.u
  IN /\ ev.cls \in ValueClasses
     /\ ev.unit = d.unit /\ ev.e = d.e /\ ev.scaled
     /\ (changed => ev.orig = "written")
     /\ (~changed => ev.orig \in {"none", "written"})

Accept(ev) ==
  IF ev.ev = "tidy" THEN TidyOK(ev)
  ELSE IF ev.ev = "read" THEN ReadOK(ev)
  ELSE FALSE

TInit == l = 1 /\ u = <<>>

TNext ==
  /\ l <= Len(TraceLog)
  /\ IF Accept(Ev) THEN TRUE ELSE PrintT(ToJson([tag |-> "reject", line |-> l]))
  /\ l' = l + 1
  /\ u' = Ev.u

TSpec == TInit /\ [][TNext]_tvars

HW == IF l > TLCGet(1) THEN TLCSet(1, l) ELSE TRUE
Post == PrintT("TRACE hwm=" \o ToString(TLCGet(1) - 1) \o " len=" \o ToString(Len(TraceLog)))
ASSUME TLCSet(1, 0)
=============================================================================
