--------------------------------- MODULE Upload ---------------------------------
(* The storage server's upload path (storage/app/upload.go, storage/db/db.go,     *)
(* storage/fs) as a set of uploader processes working on a shared index (SQL      *)
(* database) and a file store, with at most one injected fault.                   *)
(*                                                                                *)
(* Steps of one upload, one action each (grain of the code):                      *)
(*   ReadLast     NewUpload: begin tx, read the latest upload ID                  *)
(*   InsertId     NewUpload: insert the new ID (takes the write reservation)      *)
(*   CommitId     NewUpload: commit the ID transaction, begin the records tx      *)
(*   Create       indexFile: FS.NewWriter                                         *)
(*   Header       indexFile: write the metadata header                            *)
(*   Rec          one benchmark record read from the body, teed to the file and   *)
(*                buffered for the index                                          *)
(*   Flush        the buffered records are written inside the records tx (taken   *)
(*                when the buffer is full; takes the write reservation)           *)
(*   CloseFile    fw.Close: the file becomes stored                               *)
(*   Commit       flush + tx.Commit: all records become visible                   *)
(*   Fail(kind)   any failure: CloseWithError on the open file, rollback          *)
(* Faults (at most MaxFaults in a behaviour): invalid content (a file without     *)
(* benchmark lines), an unexpected form field, a cut request body (also: client   *)
(* abort), create / write / close errors of the file store, and "database is      *)
(* locked" when another uploader holds the write reservation.                     *)
EXTENDS Naturals, Sequences, FiniteSets, TLC

CONSTANTS Uploaders, MaxFiles, MaxRecs, MaxFaults, Days,
          CommitBeforeClose     \* deviation switch (negative control): commit before the last file is closed

None == "none"
NoId == [day |-> 0, n |-> 0]
NoFile == <<"none", 0>>

VARIABLES
  phase,    \* uploader -> "idle" | "read" | "inserted" | "open" (between files) | "file" (file open, header pending)
            \*             | "body" | "closed-all" | "committed" | "failed"
  plan,     \* uploader -> [files: 1..MaxFiles, recs: 1..MaxRecs]  chosen when it starts
  lastRead, \* uploader -> [day, n]: the day NewUpload started in and the latest N of that day it read (0 = none)
  myid,     \* uploader -> [day, n] or None
  rows,     \* committed rows of the Uploads table: set of [day, n]
  tentative,\* uncommitted inserted ID rows: uploader -> [day, n] or None
  wres,     \* holder of the database write reservation (None or an uploader)
  fileNo,   \* uploader -> index of the current file (1-based)
  recNo,    \* uploader -> records read of the current file
  buffered, \* uploader -> set of <<u, f, r>> buffered in memory
  flushed,  \* uploader -> set of <<u, f, r>> written inside its open records tx
  visible,  \* set of <<u, f, r>> committed and queryable
  stored,   \* set of <<u, f>> files stored (closed successfully)
  openf,    \* uploader -> None or <<u, f>> file being written
  failedAt, \* uploader -> None or <<u, f>>: the file that was being written when the upload failed
  day,      \* current day (index into Days)
  faults,   \* number of injected faults so far
  created   \* sequence of uploaders in the order their IDs were committed (ghost)

vars == <<phase, plan, lastRead, myid, rows, tentative, wres, fileNo, recNo, buffered, flushed, visible, stored, openf, failedAt, day, faults, created>>

Plans == [files : 1..MaxFiles, recs : 1..MaxRecs]
NoPlan == [files |-> 0, recs |-> 0]

Init ==
  /\ phase = [u \in Uploaders |-> "idle"]
  /\ plan = [u \in Uploaders |-> NoPlan]
  /\ lastRead = [u \in Uploaders |-> [day |-> 0, n |-> 0]]
  /\ myid = [u \in Uploaders |-> NoId]
  /\ rows = {} /\ tentative = [u \in Uploaders |-> NoId] /\ wres = None
  /\ fileNo = [u \in Uploaders |-> 0] /\ recNo = [u \in Uploaders |-> 0]
  /\ buffered = [u \in Uploaders |-> {}] /\ flushed = [u \in Uploaders |-> {}]
  /\ visible = {} /\ stored = {} /\ openf = [u \in Uploaders |-> NoFile]
  /\ failedAt = [u \in Uploaders |-> NoFile]
  /\ day = 1 /\ faults = 0 /\ created = <<>>

MaxToday == LET S == {r.n : r \in {x \in rows : x.day = day}} IN
            IF S = {} THEN 0 ELSE CHOOSE m \in S : \A k \in S : k <= m

\* ------------------------------------------------------------------ ID allocation (DB.NewUpload)
ReadLast(u) ==
  /\ phase[u] = "idle"
  /\ \E p \in Plans : plan' = [plan EXCEPT ![u] = p]
  /\ lastRead' = [lastRead EXCEPT ![u] = [day |-> day, n |-> MaxToday]]   \* the day is fixed when NewUpload starts
  /\ phase' = [phase EXCEPT ![u] = "read"]
  /\ UNCHANGED <<myid, rows, tentative, wres, fileNo, recNo, buffered, flushed, visible, stored, openf, failedAt, day, faults, created>>

\* the insert succeeds only with the write reservation free and the ID not present;
\* otherwise NewUpload fails ("database is locked" / constraint failure) - no fault budget
\* needed, this is the database doing its job
InsertId(u) ==
  /\ phase[u] = "read"
  /\ LET id == [day |-> lastRead[u].day, n |-> lastRead[u].n + 1] IN
     IF wres = None /\ id \notin rows
     THEN /\ tentative' = [tentative EXCEPT ![u] = id]
          /\ wres' = u
          /\ phase' = [phase EXCEPT ![u] = "inserted"]
          /\ UNCHANGED failedAt
     ELSE /\ phase' = [phase EXCEPT ![u] = "failed"]
          /\ UNCHANGED <<tentative, wres, failedAt>>
  /\ UNCHANGED <<plan, lastRead, myid, rows, fileNo, recNo, buffered, flushed, visible, stored, openf, day, faults, created>>

CommitId(u) ==
  /\ phase[u] = "inserted"
  /\ rows' = rows \cup {tentative[u]}
  /\ myid' = [myid EXCEPT ![u] = tentative[u]]
  /\ tentative' = [tentative EXCEPT ![u] = NoId]
  /\ wres' = None
  /\ created' = Append(created, u)
  /\ phase' = [phase EXCEPT ![u] = "open"]
  /\ fileNo' = [fileNo EXCEPT ![u] = 1]
  /\ UNCHANGED <<plan, lastRead, recNo, buffered, flushed, visible, stored, openf, failedAt, day, faults>>

\* ------------------------------------------------------------------ files
Create(u) ==
  /\ phase[u] = "open" /\ fileNo[u] <= plan[u].files
  /\ openf' = [openf EXCEPT ![u] = <<u, fileNo[u]>>]
  /\ phase' = [phase EXCEPT ![u] = "file"]
  /\ recNo' = [recNo EXCEPT ![u] = 0]
  /\ UNCHANGED <<plan, lastRead, myid, rows, tentative, wres, fileNo, buffered, flushed, visible, stored, failedAt, day, faults, created>>

Header(u) ==
  /\ phase[u] = "file"
  /\ phase' = [phase EXCEPT ![u] = "body"]
  /\ UNCHANGED <<plan, lastRead, myid, rows, tentative, wres, fileNo, recNo, buffered, flushed, visible, stored, openf, failedAt, day, faults, created>>

Rec(u) ==
  /\ phase[u] = "body" /\ recNo[u] < plan[u].recs
  /\ recNo' = [recNo EXCEPT ![u] = recNo[u] + 1]
  /\ buffered' = [buffered EXCEPT ![u] = buffered[u] \cup {<<u, fileNo[u], recNo[u] + 1>>}]
  /\ UNCHANGED <<phase, plan, lastRead, myid, rows, tentative, wres, fileNo, flushed, visible, stored, openf, failedAt, day, faults, created>>

\* mid-upload flush: needs the write reservation (kept until commit / rollback)
Flush(u) ==
  /\ phase[u] = "body" /\ buffered[u] # {}
  /\ wres \in {None, u}
  /\ wres' = u
  /\ flushed' = [flushed EXCEPT ![u] = flushed[u] \cup buffered[u]]
  /\ buffered' = [buffered EXCEPT ![u] = {}]
  /\ UNCHANGED <<phase, plan, lastRead, myid, rows, tentative, fileNo, recNo, visible, stored, openf, failedAt, day, faults, created>>

CloseFile(u) ==
  /\ phase[u] = "body" /\ recNo[u] = plan[u].recs
  /\ ~CommitBeforeClose \/ fileNo[u] < plan[u].files
  /\ stored' = stored \cup {openf[u]}
  /\ openf' = [openf EXCEPT ![u] = NoFile]
  /\ IF fileNo[u] < plan[u].files
     THEN /\ fileNo' = [fileNo EXCEPT ![u] = fileNo[u] + 1] /\ phase' = [phase EXCEPT ![u] = "open"]
     ELSE /\ fileNo' = fileNo /\ phase' = [phase EXCEPT ![u] = "closed-all"]
  /\ UNCHANGED <<plan, lastRead, myid, rows, tentative, wres, recNo, buffered, flushed, visible, failedAt, day, faults, created>>

Commit(u) ==
  /\ \/ phase[u] = "closed-all"
     \/ (CommitBeforeClose /\ phase[u] = "body" /\ recNo[u] = plan[u].recs /\ fileNo[u] = plan[u].files)
  /\ wres \in {None, u}
  /\ visible' = visible \cup flushed[u] \cup buffered[u]
  /\ flushed' = [flushed EXCEPT ![u] = {}] /\ buffered' = [buffered EXCEPT ![u] = {}]
  /\ wres' = None
  /\ phase' = [phase EXCEPT ![u] = IF phase[u] = "closed-all" THEN "committed" ELSE "body-committed"]
  /\ UNCHANGED <<plan, lastRead, myid, rows, tentative, fileNo, recNo, stored, openf, failedAt, day, faults, created>>

\* negative control only: the last file is closed after the commit
LateClose(u) ==
  /\ phase[u] = "body-committed"
  /\ stored' = stored \cup {openf[u]} /\ openf' = [openf EXCEPT ![u] = NoFile]
  /\ phase' = [phase EXCEPT ![u] = "committed"]
  /\ UNCHANGED <<plan, lastRead, myid, rows, tentative, wres, fileNo, recNo, buffered, flushed, visible, failedAt, day, faults, created>>

\* ------------------------------------------------------------------ failures
\* the effect of every failure: the open file is discarded (CloseWithError), the
\* records transaction rolled back, the reservation released
Abort(u) ==
  /\ failedAt' = [failedAt EXCEPT ![u] = openf[u]]
  /\ openf' = [openf EXCEPT ![u] = NoFile]
  /\ buffered' = [buffered EXCEPT ![u] = {}] /\ flushed' = [flushed EXCEPT ![u] = {}]
  /\ tentative' = [tentative EXCEPT ![u] = NoId]
  /\ wres' = IF wres = u THEN None ELSE wres
  /\ phase' = [phase EXCEPT ![u] = "failed"]

\* injected faults, by the step at which they strike
Fault(u) ==
  /\ faults < MaxFaults
  /\ phase[u] \in {"open", "file", "body", "closed-all", "body-committed"}
     \* open: create error, unexpected field, cut between parts;  file: header write error;
     \* body: invalid content, write error, cut body, close error;  closed-all: cut before the end
  /\ faults' = faults + 1
  /\ Abort(u)
  /\ UNCHANGED <<plan, lastRead, myid, rows, fileNo, recNo, visible, stored, day, created>>

\* "database is locked": a flush or commit that finds the reservation taken fails
Locked(u) ==
  /\ \/ (phase[u] = "body" /\ buffered[u] # {})
     \/ phase[u] = "closed-all"
  /\ wres \notin {None, u}
  /\ Abort(u)
  /\ UNCHANGED <<plan, lastRead, myid, rows, fileNo, recNo, visible, stored, day, faults, created>>

NextDay ==
  /\ day < Days
  /\ day' = day + 1
  /\ UNCHANGED <<phase, plan, lastRead, myid, rows, tentative, wres, fileNo, recNo, buffered, flushed, visible, stored, openf, failedAt, faults, created>>

Terminated == \A u \in Uploaders : phase[u] \in {"committed", "failed"}
Finished == Terminated /\ UNCHANGED vars

Step(u) == ReadLast(u) \/ InsertId(u) \/ CommitId(u) \/ Create(u) \/ Header(u) \/ Rec(u) \/ Flush(u)
           \/ CloseFile(u) \/ Commit(u) \/ LateClose(u) \/ Locked(u)
Next == (\E u \in Uploaders : Step(u) \/ Fault(u)) \/ NextDay \/ Finished

\* progress: every uploader keeps taking steps (faults and day changes are optional)
Fairness == \A u \in Uploaders : WF_vars(Step(u))
Spec == Init /\ [][Next]_vars /\ Fairness

-----------------------------------------------------------------------------
RecsOf(u) == {<<u, f, r>> : f \in 1..plan[u].files, r \in 1..plan[u].recs}
OfU(S, u) == {x \in S : x[1] = u}

\* what can be queried of an upload is all of it or nothing
AllOrNothing ==
  \A u \in Uploaders :
     /\ phase[u] = "committed" => OfU(visible, u) = RecsOf(u)
     /\ phase[u] \notin {"committed", "body-committed"} => OfU(visible, u) = {}

\* the file being written when the failure happened is not stored
FailedFileRemoved == \A u \in Uploaders : failedAt[u] # NoFile => failedAt[u] \notin stored

\* on success every file is stored (once: stored is a set and CloseFile is the only writer)
StoredOnSuccess == \A u \in Uploaders : phase[u] = "committed" => \A f \in 1..plan[u].files : <<u, f>> \in stored

\* records are only queryable once every file of the upload is stored
VisibleOnlyAfterStored == \A x \in visible : <<x[1], x[2]>> \in stored

\* IDs: unique, never reused, increasing in creation order within a day
IdsUnique == \A u, v \in Uploaders : (u # v /\ myid[u] # NoId /\ myid[v] # NoId) => myid[u] # myid[v]
IdsMonotone == \A i, j \in 1..Len(created) :
   (i < j /\ myid[created[i]].day = myid[created[j]].day) => myid[created[i]].n < myid[created[j]].n
IdFormat == \A u \in Uploaders : myid[u] # NoId => (myid[u].n >= 1 /\ myid[u] \in rows)

\* earlier uploads are unaffected: what is visible / stored / allocated stays so
Monotone == [][visible \subseteq visible' /\ stored \subseteq stored' /\ rows \subseteq rows']_vars

TypeOK == /\ wres \in Uploaders \cup {None}
          /\ \A u \in Uploaders : openf[u] # NoFile => phase[u] \in {"file", "body", "body-committed"}

\* liveness: every started upload ends committed or failed
EveryUploadEnds == \A u \in Uploaders : (phase[u] # "idle") ~> (phase[u] \in {"committed", "failed"})
=============================================================================
