-------------------------------- MODULE Upload_gen --------------------------------
(* Generators (mode G) for Upload.                                                  *)
(*  - fault scenarios: one uploader, every plan, a fault at every step (or none):   *)
(*    printed at terminal states with the post-state the server must show           *)
(*  - ID interleavings: two uploaders racing through ReadLast / InsertId / CommitId  *)
(*    (and day changes): printed when both have finished allocating                 *)
EXTENDS Upload, Json

VARIABLES hist, faultAt
gvars == <<vars, hist, faultAt>>

NoFault == [phase |-> "none", file |-> 0, rec |-> 0]

GInit == Init /\ hist = <<>> /\ faultAt = NoFault

GNext ==
  \/ \E u \in Uploaders :
       \/ (ReadLast(u) /\ hist' = Append(hist, [u |-> u, a |-> "read"]) /\ UNCHANGED faultAt)
       \/ (InsertId(u) /\ hist' = Append(hist, [u |-> u, a |-> "insert"]) /\ UNCHANGED faultAt)
       \/ (CommitId(u) /\ hist' = Append(hist, [u |-> u, a |-> "commit"]) /\ UNCHANGED faultAt)
       \/ ((Create(u) \/ Header(u) \/ Rec(u) \/ CloseFile(u) \/ Commit(u)) /\ UNCHANGED <<hist, faultAt>>)
       \/ (Fault(u) /\ faultAt' = [phase |-> phase[u], file |-> fileNo[u], rec |-> recNo[u]] /\ UNCHANGED hist)
  \/ (NextDay /\ hist' = Append(hist, [u |-> "-", a |-> "nextday"]) /\ UNCHANGED faultAt)
GSpec == GInit /\ [][GNext]_gvars

TheU == CHOOSE u \in Uploaders : TRUE
SetToList(S) == LET RECURSIVE L(_)
                    L(T) == IF T = {} THEN <<>> ELSE LET x == CHOOSE y \in T : TRUE IN <<x>> \o L(T \ {x})
                IN L(S)

\* fault scenarios (Uploaders is a singleton)
EmitFault ==
  (Cardinality(Uploaders) = 1 /\ Terminated) =>
    PrintT(ToJson([tag |-> "fault", files |-> plan[TheU].files, recs |-> plan[TheU].recs, fault |-> faultAt,
                   ok |-> (phase[TheU] = "committed"),
                   visible |-> SetToList({<<x[2], x[3]>> : x \in visible}),
                   stored |-> SetToList({x[2] : x \in stored}),
                   failedfile |-> failedAt[TheU][2]]))

IdDone(u) == phase[u] \in {"open", "failed"}
EmitIds ==
  (Cardinality(Uploaders) = 2 /\ \A u \in Uploaders : IdDone(u)) =>
    PrintT(ToJson([tag |-> "ids", steps |-> hist,
                   ids |-> [u \in Uploaders |-> myid[u]]]))

\* ID generation does not go on into the file phases (keeps the interleaving space small)
NotPastIds == \A u \in Uploaders : phase[u] \in {"idle", "read", "inserted", "open", "failed"}
=============================================================================
