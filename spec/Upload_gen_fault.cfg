SPECIFICATION GSpec
CONSTANTS
  Uploaders = {"u1"}
  MaxFiles = 2
  MaxRecs = 2
  MaxFaults = 1
  Days = 1
  CommitBeforeClose = FALSE
INVARIANTS EmitFault AllOrNothing FailedFileRemoved
CHECK_DEADLOCK FALSE
