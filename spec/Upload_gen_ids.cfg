SPECIFICATION GSpec
CONSTANTS
  Uploaders = {"u1", "u2"}
  MaxFiles = 1
  MaxRecs = 1
  MaxFaults = 0
  Days = 2
  CommitBeforeClose = FALSE
INVARIANTS EmitIds IdsUnique IdsMonotone
CONSTRAINT NotPastIds
CHECK_DEADLOCK FALSE
