SPECIFICATION TSpec
CONSTANTS
  Uploaders = {"u1", "u2"}
  MaxFiles = 1
  MaxRecs = 1
  MaxFaults = 0
  Days = 2
  CommitBeforeClose = FALSE
INVARIANTS IdsUnique IdsMonotone IdFormat
CONSTRAINT HW
POSTCONDITION Post
CHECK_DEADLOCK FALSE
