------------------------------ MODULE Upload_idtrace ------------------------------
(* Trace validation of upload-ID allocation: two goroutines calling DB.NewUpload   *)
(* were stepped through a model interleaving by the hook gate; the outcome of each  *)
(* step is logged.  The logged steps must be steps of Upload.tla: what ReadLast     *)
(* read must be the latest committed ID of the day, an insert must produce the      *)
(* next number of the day NewUpload started in, and the IDs handed out must         *)
(* satisfy IdsUnique / IdsMonotone / IdFormat.  The database may refuse an insert   *)
(* or a commit at any time ("database is locked", constraint failure): a failed     *)
(* NewUpload is an allowed outcome, a duplicate or out-of-order ID never is.        *)
EXTENDS Upload, Json

TraceLog == ndJsonDeserialize("trace.ndjson")
VARIABLE l
tvars == <<vars, l>>
Ev == TraceLog[l]

TInit == Init /\ l = 1
Is(e) == l <= Len(TraceLog) /\ Ev.ev = e

TReset ==
  /\ Is("reset")
  /\ phase' = [u \in Uploaders |-> "idle"] /\ plan' = [u \in Uploaders |-> NoPlan]
  /\ lastRead' = [u \in Uploaders |-> [day |-> 0, n |-> 0]] /\ myid' = [u \in Uploaders |-> NoId]
  /\ rows' = {} /\ tentative' = [u \in Uploaders |-> NoId] /\ wres' = None
  /\ fileNo' = [u \in Uploaders |-> 0] /\ recNo' = [u \in Uploaders |-> 0]
  /\ buffered' = [u \in Uploaders |-> {}] /\ flushed' = [u \in Uploaders |-> {}]
  /\ visible' = {} /\ stored' = {} /\ openf' = [u \in Uploaders |-> NoFile] /\ failedAt' = [u \in Uploaders |-> NoFile]
  /\ day' = 1 /\ faults' = 0 /\ created' = <<>>
  /\ l' = l + 1

TNextDay == Is("nextday") /\ NextDay /\ l' = l + 1

\* the latest ID read: "" (n = 0) when nothing was created today
TRead ==
  /\ Is("read") /\ Ev.ok
  /\ ReadLast(Ev.u)
  /\ lastRead'[Ev.u].n = (IF Ev.day = day THEN Ev.n ELSE 0)
  /\ l' = l + 1

TInsertOk ==
  /\ Is("insert") /\ Ev.ok
  /\ InsertId(Ev.u)
  /\ tentative'[Ev.u] = [day |-> Ev.day, n |-> Ev.n]
  /\ l' = l + 1

TCommitOk ==
  /\ Is("commit") /\ Ev.ok
  /\ CommitId(Ev.u)
  /\ myid'[Ev.u] = [day |-> Ev.day, n |-> Ev.n]
  /\ l' = l + 1

\* the database refused: NewUpload returns an error, its transaction is rolled back
TRefused ==
  /\ l <= Len(TraceLog) /\ Ev.ev \in {"read", "insert", "commit"} /\ ~Ev.ok
  /\ phase[Ev.u] \in {"idle", "read", "inserted"}
  /\ Abort(Ev.u)
  /\ l' = l + 1
  /\ UNCHANGED <<plan, lastRead, myid, rows, fileNo, recNo, visible, stored, day, faults, created>>

TNext == TReset \/ TNextDay \/ TRead \/ TInsertOk \/ TCommitOk \/ TRefused
TSpec == TInit /\ [][TNext]_tvars

HW == IF l > TLCGet(1) THEN TLCSet(1, l) ELSE TRUE
Post == PrintT("TRACE hwm=" \o ToString(TLCGet(1) - 1) \o " len=" \o ToString(Len(TraceLog)))
ASSUME TLCSet(1, 0)
=============================================================================
