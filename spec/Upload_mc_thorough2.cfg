SPECIFICATION Spec
CONSTANTS
  Uploaders = {"u1", "u2"}
  MaxFiles = 2
  MaxRecs = 2
  MaxFaults = 2
  Days = 2
  CommitBeforeClose = FALSE
INVARIANTS TypeOK AllOrNothing FailedFileRemoved StoredOnSuccess VisibleOnlyAfterStored IdsUnique IdsMonotone IdFormat
PROPERTIES Monotone EveryUploadEnds
