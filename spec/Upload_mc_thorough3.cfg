SPECIFICATION Spec
CONSTANTS
  Uploaders = {"u1", "u2", "u3"}
  MaxFiles = 1
  MaxRecs = 2
  MaxFaults = 1
  Days = 2
  CommitBeforeClose = FALSE
INVARIANTS TypeOK AllOrNothing FailedFileRemoved StoredOnSuccess VisibleOnlyAfterStored IdsUnique IdsMonotone IdFormat
PROPERTIES Monotone EveryUploadEnds
