SPECIFICATION Spec
CONSTANTS
  Uploaders = {"u1", "u2"}
  MaxFiles = 2
  MaxRecs = 2
  MaxFaults = 1
  Days = 2
  CommitBeforeClose = TRUE
INVARIANTS TypeOK AllOrNothing FailedFileRemoved StoredOnSuccess VisibleOnlyAfterStored IdsUnique IdsMonotone IdFormat
PROPERTIES Monotone EveryUploadEnds
