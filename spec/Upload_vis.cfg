SPECIFICATION Spec
CONSTRAINT HW
POSTCONDITION Post
CHECK_DEADLOCK FALSE
