-------------------------------- MODULE Upload_vis --------------------------------
(* What an outside observer may see while uploads are in flight (property C20,     *)
(* "all-or-nothing with respect to what can be queried"), at the grain of the      *)
(* CLIENT: storage.Client uploads run concurrently against a real server while an   *)
(* observer keeps querying.  The server's own steps (Upload.tla) are not visible    *)
(* to the client; what Upload.tla proves - records of an upload are visible only    *)
(* once it has committed, and then all of them - becomes, for the observer:         *)
(*     before Commit is called        nothing of the upload is visible              *)
(*     while Commit is in progress    nothing or everything                         *)
(*     after Commit returned success  everything, for ever                          *)
(*     after Abort / a failed Commit  nothing, for ever                             *)
(* Events (logged under one lock, in real-time order):                              *)
(*   begin{u, total}  commit.call{u}  commit.ret{u, ok}  abort{u}                   *)
(*   observe{seen: [[u, count] ...]}   reset                                        *)
EXTENDS Naturals, Sequences, FiniteSets, TLC, Json

TraceLog == ndJsonDeserialize("trace.ndjson")
VARIABLES l, cphase, total, everSeen
vars == <<l, cphase, total, everSeen>>
Ev == TraceLog[l]
Is(e) == l <= Len(TraceLog) /\ Ev.ev = e

Init == l = 1 /\ cphase = <<>> /\ total = <<>> /\ everSeen = {}

Set(f, k, v) == [x \in DOMAIN f \cup {k} |-> IF x = k THEN v ELSE f[x]]

Reset == Is("reset") /\ cphase' = <<>> /\ total' = <<>> /\ everSeen' = {} /\ l' = l + 1
Begin == /\ Is("begin") /\ Ev.u \notin DOMAIN cphase
         /\ cphase' = Set(cphase, Ev.u, "open") /\ total' = Set(total, Ev.u, Ev.total)
         /\ l' = l + 1 /\ UNCHANGED everSeen
CommitCall == /\ Is("commit.call") /\ Ev.u \in DOMAIN cphase /\ cphase[Ev.u] = "open"
              /\ cphase' = Set(cphase, Ev.u, "committing") /\ l' = l + 1 /\ UNCHANGED <<total, everSeen>>
CommitRet == /\ Is("commit.ret") /\ Ev.u \in DOMAIN cphase /\ cphase[Ev.u] = "committing"
             /\ cphase' = Set(cphase, Ev.u, IF Ev.ok THEN "committed" ELSE "failed")
             /\ l' = l + 1 /\ UNCHANGED <<total, everSeen>>
Abort == /\ Is("abort") /\ Ev.u \in DOMAIN cphase /\ cphase[Ev.u] = "open"
         /\ cphase' = Set(cphase, Ev.u, "failed") /\ l' = l + 1 /\ UNCHANGED <<total, everSeen>>

Count(seen, u) == LET S == {i \in 1..Len(seen) : seen[i][1] = u} IN
                  IF S = {} THEN 0 ELSE seen[CHOOSE i \in S : TRUE][2]

Allowed(u, n) ==
  CASE cphase[u] = "open" -> n = 0
    [] cphase[u] = "committing" -> n \in {0, total[u]}
    [] cphase[u] = "committed" -> n = total[u]
    [] OTHER -> n = 0            \* failed / aborted

Observe ==
  /\ Is("observe")
  /\ \A u \in DOMAIN cphase : Allowed(u, Count(Ev.seen, u))
  /\ \A i \in 1..Len(Ev.seen) : Ev.seen[i][1] \in DOMAIN cphase       \* nothing from nowhere
  /\ \A u \in everSeen : Count(Ev.seen, u) = total[u]                 \* what was visible stays visible
  /\ everSeen' = everSeen \cup {u \in DOMAIN cphase : Count(Ev.seen, u) > 0}
  /\ l' = l + 1 /\ UNCHANGED <<cphase, total>>

Next == Reset \/ Begin \/ CommitCall \/ CommitRet \/ Abort \/ Observe
Spec == Init /\ [][Next]_vars

HW == IF l > TLCGet(1) THEN TLCSet(1, l) ELSE TRUE
Post == PrintT("TRACE hwm=" \o ToString(TLCGet(1) - 1) \o " len=" \o ToString(Len(TraceLog)))
ASSUME TLCSet(1, 0)
=============================================================================
