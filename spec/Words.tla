---------------------------------- MODULE Words ----------------------------------
(* Shell-style word splitting of query text (storage/query/query.go, SplitWords)  *)
(* and the quoting rule of the analysis front end's query builder                  *)
(* (analysis/app/compare.go, addToQuery).                                          *)
(*                                                                                 *)
(* Text is a sequence of one-character strings over Chars: "a" stands for any      *)
(* character the splitter does not distinguish, the other four are the ones it     *)
(* does: blank, tab, backslash, double quote.                                      *)
(*                                                                                 *)
(* DECLARATIVE  (Split): the text is read as a sequence of lexical atoms           *)
(*     outside quotes:  \c -> literal c     "  -> opens a quoted stretch           *)
(*                      blank/tab -> separator      c -> literal c                 *)
(*     inside quotes:   \c -> literal c     "  -> closes the stretch               *)
(*                      c -> literal c (blanks included)                           *)
(*   a backslash that is the last character of the text stands for nothing; the    *)
(*   words are the maximal non-empty runs of literals between separators.          *)
(*                                                                                 *)
(* OPERATIONAL (SplitOp): the loop of SplitWords with its read index r that is     *)
(*   advanced a second time after a backslash, its `r < len(q)` guards, its word   *)
(*   buffer that is emitted when non-empty at a blank and at the end.              *)
(*                                                                                 *)
(* QuoteDecl / QuoteOp: the front end's quoting of one word.                       *)
EXTENDS Naturals, Sequences, FiniteSets, TLC

CONSTANTS MaxLen,      \* texts up to this length are split
          MaxWord      \* words up to this length are quoted and split back

BS == "\\"
DQ == "\""
SP == " "
TB == "\t"
Chars == {"a", SP, TB, BS, DQ}
Blank(c) == c = SP \/ c = TB

Texts(n) == UNION {[1..m -> Chars] : m \in 0..n}

-----------------------------------------------------------------------------
\* Declarative

\* atoms of s from position i on, in mode quoted/unquoted: "sep" or <<"lit", c>>
RECURSIVE Atoms(_, _, _)
Atoms(s, i, quoted) ==
  IF i > Len(s) THEN <<>>
  ELSE LET c == s[i] IN
    IF c = BS THEN (IF i + 1 > Len(s) THEN <<>>
                    ELSE <<[lit |-> TRUE, c |-> s[i+1]]>> \o Atoms(s, i + 2, quoted))
    ELSE IF c = DQ THEN Atoms(s, i + 1, ~quoted)
    ELSE IF Blank(c) /\ ~quoted THEN <<[lit |-> FALSE, c |-> ""]>> \o Atoms(s, i + 1, quoted)
    ELSE <<[lit |-> TRUE, c |-> c]>> \o Atoms(s, i + 1, quoted)

\* maximal non-empty runs of literals
RECURSIVE Runs(_, _)
Runs(as, cur) ==
  IF as = <<>> THEN (IF cur = <<>> THEN <<>> ELSE <<cur>>)
  ELSE IF Head(as).lit THEN Runs(Tail(as), Append(cur, Head(as).c))
  ELSE (IF cur = <<>> THEN <<>> ELSE <<cur>>) \o Runs(Tail(as), <<>>)

Split(s) == Runs(Atoms(s, 1, FALSE), <<>>)

NeedsQuoting(w) == \E i \in 1..Len(w) : w[i] \in {SP, TB, BS, DQ}

\* quoting: every backslash and every double quote gets a backslash in front, the
\* whole is wrapped in double quotes; a word without special characters is left alone
RECURSIVE Escaped(_)
Escaped(w) == IF w = <<>> THEN <<>>
              ELSE (IF Head(w) \in {BS, DQ} THEN <<BS, Head(w)>> ELSE <<Head(w)>>) \o Escaped(Tail(w))
QuoteDecl(w) == IF NeedsQuoting(w) THEN <<DQ>> \o Escaped(w) \o <<DQ>> ELSE w

-----------------------------------------------------------------------------
\* Operational: SplitWords

RECURSIVE Loop(_, _)
Loop(q, st) ==
  IF st.r > Len(q) THEN st
  ELSE LET c == q[st.r]
           \* "if c == '\\' { r++ }; if r < len(q) { word[w] = q[r]; w++ }" then the loop's r++
           Take == LET r2 == IF c = BS THEN st.r + 1 ELSE st.r
                   IN [st EXCEPT !.word = IF r2 <= Len(q) THEN Append(@, q[r2]) ELSE @, !.r = r2 + 1]
       IN IF c = DQ /\ st.quoting THEN Loop(q, [st EXCEPT !.quoting = FALSE, !.r = @ + 1])
          ELSE IF st.quoting THEN Loop(q, Take)
          ELSE IF c = DQ THEN Loop(q, [st EXCEPT !.quoting = TRUE, !.r = @ + 1])
          ELSE IF Blank(c) THEN Loop(q, [st EXCEPT !.words = IF st.word # <<>> THEN Append(@, st.word) ELSE @,
                                                   !.word = <<>>, !.r = @ + 1])
          ELSE Loop(q, Take)

SplitOp(q) ==
  LET fin == Loop(q, [r |-> 1, word |-> <<>>, quoting |-> FALSE, words |-> <<>>])
  IN IF fin.word # <<>> THEN Append(fin.words, fin.word) ELSE fin.words

\* Operational: addToQuery's  Replace(`\`,`\\`), Replace(`"`,`\"`), wrap
RECURSIVE ReplaceAll(_, _, _)
ReplaceAll(w, c, by) == IF w = <<>> THEN <<>>
                        ELSE (IF Head(w) = c THEN by ELSE <<Head(w)>>) \o ReplaceAll(Tail(w), c, by)
QuoteOp(w) == IF NeedsQuoting(w)
              THEN <<DQ>> \o ReplaceAll(ReplaceAll(w, BS, <<BS, BS>>), DQ, <<BS, DQ>>) \o <<DQ>>
              ELSE w

-----------------------------------------------------------------------------
\* Function-style checking: every text / every word is an initial state.

VARIABLES s, kind
vars == <<s, kind>>

Rests == { <<>>, <<"a">>, <<"a", SP, "a">>, <<DQ, "a", SP, "a", DQ>>, <<"a", BS, SP, "a">>, <<SP, TB>> }

Init == \/ kind = "split" /\ s \in Texts(MaxLen)
        \/ kind = "quote" /\ s \in (Texts(MaxWord) \ {<<>>})
Next == UNCHANGED vars
Spec == Init /\ [][Next]_vars

\* splitter: the loop computes the declared words
SplitAgrees == kind = "split" => SplitOp(s) = Split(s)

\* words never contain nothing, and come out in text order (implied by equality with Split)
NoEmptyWord == kind = "split" => \A i \in 1..Len(Split(s)) : Split(s)[i] # <<>>

\* quoting: the builder's replacement chain is the declared quoting
QuoteAgrees == kind = "quote" => QuoteOp(s) = QuoteDecl(s)

\* a quoted word followed by a blank and more query text is split back into exactly
\* the original word, followed by the words of the rest
QuoteRoundTrip ==
  kind = "quote" =>
    /\ Split(QuoteDecl(s)) = <<s>>
    /\ \A rest \in Rests : /\ Split(QuoteDecl(s) \o <<SP>> \o rest) = <<s>> \o Split(rest)
                           /\ SplitOp(QuoteOp(s) \o <<SP>> \o rest) = <<s>> \o SplitOp(rest)
=============================================================================
