-------------------------------- MODULE Words_gen --------------------------------
(* Generator wrapper (mode G) for Words: one replay case per text (what            *)
(* query.SplitWords must return: the DECLARATIVE Split) and per word (what         *)
(* splitting the front end's quoted word followed by more query text must give).   *)
EXTENDS Words, Json

RestSeq == << <<>>, <<"a">>, <<"a", SP, "a">>, <<DQ, "a", SP, "a", DQ>>, <<"a", BS, SP, "a">>, <<SP, TB>> >>

GenSplit == kind = "split" =>
  PrintT(ToJson([tag |-> "case", kind |-> "split", text |-> s, expect |-> Split(s)]))

\* the harness appends " | " ++ rest (addToQuery's own separator); "|" is an ordinary
\* character for the splitter, so the words of the rest are <<"|">> followed by Split(rest)
GenQuote == kind = "quote" =>
  PrintT(ToJson([tag |-> "case", kind |-> "quote", word |-> s,
                 rests |-> [r \in 1..Len(RestSeq) |-> [rest |-> RestSeq[r], expect |-> <<s>> \o Split(RestSeq[r])]]]))
=============================================================================
