SPECIFICATION Spec
CONSTANTS
  MaxLen = 6
  MaxWord = 5
INVARIANTS GenSplit GenQuote
CHECK_DEADLOCK FALSE
