SPECIFICATION Spec
CONSTANTS
  MaxLen = 7
  MaxWord = 6
INVARIANTS GenSplit GenQuote
CHECK_DEADLOCK FALSE
