SPECIFICATION Spec
CONSTANTS
  MaxLen = 6
  MaxWord = 5
INVARIANTS SplitAgrees NoEmptyWord QuoteAgrees QuoteRoundTrip
CHECK_DEADLOCK FALSE
