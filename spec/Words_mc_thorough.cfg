SPECIFICATION Spec
CONSTANTS
  MaxLen = 8
  MaxWord = 7
INVARIANTS SplitAgrees NoEmptyWord QuoteAgrees QuoteRoundTrip
CHECK_DEADLOCK FALSE
