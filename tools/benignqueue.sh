#!/bin/bash
# Processes finished benign patches under /tmp/benign-C??/out/<k> (idempotent; several
# instances may run side by side: an item is claimed by mkdir).  Log on stdout.
cd /verif
mkdir -p /tmp/benignlock
for d in /tmp/benign-C*/out/[123]; do
  [ -f $d/patch.diff ] && [ -f $d/meta.json ] || continue
  id=$(echo $d | sed 's|/tmp/benign-\(C[0-9]*\)/out/\([0-9]\)|\1|'); k=$(basename $d)
  [ -f /verif/benign/$id-$k/meta.json ] && continue
  mkdir /tmp/benignlock/$id-$k 2>/dev/null || continue
  echo "=== $id-$k"
  python3 tools/benignverify.py $d $id $k 2>&1 | grep "^check\|KEPT\|not green\|does not\|^    "
done
