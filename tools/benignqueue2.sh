#!/bin/bash
# Second benign round: /tmp/benign2-C??/out/<k> is kept as benign/<ID>-<k+3>.
cd /verif
mkdir -p /tmp/benign2lock
for d in /tmp/benign2-C*/out/[123]; do
  [ -f $d/patch.diff ] && [ -f $d/meta.json ] || continue
  id=$(echo $d | sed 's|/tmp/benign2-\(C[0-9]*\)/out/\([0-9]\)|\1|'); k=$(( $(basename $d) + 3 ))
  [ -f /verif/benign/$id-$k/meta.json ] && continue
  mkdir /tmp/benign2lock/$id-$k 2>/dev/null || continue
  echo "=== $id-$k"
  python3 tools/benignverify.py $d $id $k 2>&1 | grep "^check\|KEPT\|not green\|does not\|^    "
done
