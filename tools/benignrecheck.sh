#!/bin/bash
# Re-runs the checks against kept benign changes (after a check was strengthened):
# tools/benignrecheck.sh C01 C02 ...   (several instances may run side by side)
cd /verif
mkdir -p /tmp/benignrelock
for id in "$@"; do
  for k in 1 2 3 4 5 6; do
    d=/verif/benign/$id-$k
    [ -f $d/patch.diff ] || continue
    mkdir /tmp/benignrelock/$id-$k 2>/dev/null || continue
    echo "=== $id-$k"
    python3 tools/benignverify.py $d $id $k --nosuite 2>&1 | grep "^check\|not green\|does not\|^    "
  done
done
