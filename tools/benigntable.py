#!/usr/bin/env python3
"""Print a markdown table of the benign changes under /verif/benign (from their meta.json)."""
import glob, json, os
HERE = os.path.dirname(os.path.dirname(os.path.abspath(__file__)))
print("| change | kind | what is different | our checks on the changed tree |")
print("|---|---|---|---|")
for d in sorted(glob.glob(os.path.join(HERE, "benign", "C*-*"))):
    mp = os.path.join(d, "meta.json")
    if not os.path.exists(mp):
        continue
    m = json.load(open(mp))
    oc = m.get("our_checks", {})
    v = ", ".join("%s: %s" % (c, x["verdict"]) for c, x in oc.items())
    if m.get("history"):
        v += " (after a correction, see meta.json)"
    print("| %s | %s | %s | %s |" % (os.path.basename(d), m.get("kind", ""), str(m.get("changes", ""))[:170].replace("|", "/").replace("\n", " "), v))
