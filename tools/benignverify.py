#!/usr/bin/env python3
"""tools/benignverify.py <out-dir> <ID> <k> [--checks C08,C09] [--tier quick]

A behaviour-preserving (with respect to the property) change produced independently:
confirm that it applies, builds and keeps the repository's suite green in a scratch
copy of /repo, then run our check(s) against the patched copy.  The expected verdict
is "ok"; a VIOLATION is a false alarm of our machinery (to be corrected), exit 2 means
the harness could not be built or run against the changed internals (no verdict).
Keeps the change as /verif/benign/<ID>-<k>/ (patch.diff, meta.json)."""
import json, os, re, shutil, subprocess, sys, tempfile

VERIF = os.path.dirname(os.path.dirname(os.path.abspath(__file__)))
ENV = dict(os.environ, GOFLAGS="-mod=mod", GOPROXY="off", GOSUMDB="off", GOTOOLCHAIN="local")


def sh(cmd, cwd, timeout=3600, env=None):
    p = subprocess.run(cmd, cwd=cwd, shell=True, env=env or ENV, stdout=subprocess.PIPE, stderr=subprocess.STDOUT, text=True, timeout=timeout)
    return p.returncode, p.stdout


def main():
    src, pid, k = sys.argv[1], sys.argv[2], sys.argv[3]
    checks = [pid]
    if "--checks" in sys.argv:
        checks = sys.argv[sys.argv.index("--checks") + 1].split(",")
    tier = "quick"
    if "--tier" in sys.argv:
        tier = sys.argv[sys.argv.index("--tier") + 1]
    D = tempfile.mkdtemp(prefix="benignv.", dir="/tmp")
    res = {"patch_applies": False, "suite_green_with_patch": False, "checks": {}}
    try:
        sh("cp -r /repo/. %s/" % D, "/")
        rc, out = sh("git apply %s" % os.path.join(src, "patch.diff"), D)
        if rc != 0:
            # /repo has moved on since the change was written (fix: commits): three-way
            rc, out = sh("git update-index --refresh >/dev/null; git apply -3 %s && git reset -q" % os.path.join(src, "patch.diff"), D)
        res["patch_applies"] = rc == 0
        if rc != 0:
            print("patch does not apply:", out[:500])
            return 1
        suite = "go build ./..." if "--nosuite" in sys.argv else "go build ./... && go test -vet=off -count=1 ./... 2>&1 | grep -v 'no test files' | grep -v '^ok' | head -20"
        rc, out = sh(suite, D)
        res["suite_green_with_patch"] = (out.strip() == "")
        if out.strip():
            print("suite not green with patch:\n" + out[:800])
        for c in checks:
            env = dict(os.environ, VERIF_REPO=D, VERIF_DEBUG="40")
            rc, out = sh("./check %s --tier %s 2>&1 | grep -v '^Semantic\\|^Parsing' | tail -400" % (c, tier), VERIF, env=env)
            sigs = sorted(set(re.findall(r'"signature": "([^"]+)"', out)))
            verdict = "VIOLATION" if "VIOLATION property=" in out else ("INFRA" if "INFRA" in out else ("ok" if " ok:" in out else "?"))
            res["checks"][c] = {"verdict": verdict, "signatures": sigs[:12]}
            print("check %s on patched tree: %s %s" % (c, verdict, sigs[:6]))
            if verdict != "ok":
                tail = [l for l in out.splitlines() if "deviation" in l or "INFRA" in l or "violation" in l][:4]
                for l in tail:
                    print("   ", l[:700])
        out_dir = os.path.join(VERIF, "benign", "%s-%s" % (pid, k))
        os.makedirs(out_dir, exist_ok=True)
        if os.path.abspath(src) != os.path.abspath(out_dir):
            shutil.copy(os.path.join(src, "patch.diff"), out_dir)
        meta = {}
        mp = os.path.join(src, "meta.json")
        if os.path.exists(mp):
            try:
                meta = json.load(open(mp))
            except Exception:
                meta = {"raw": open(mp).read()}
        meta["confirmed_by_coordinator"] = {x: res[x] for x in ("patch_applies", "suite_green_with_patch")}
        meta["our_checks"] = res["checks"]
        json.dump(meta, open(os.path.join(out_dir, "meta.json"), "w"), indent=1)
        print("KEPT", out_dir)
        return 0
    finally:
        shutil.rmtree(D, ignore_errors=True)


if __name__ == "__main__":
    sys.exit(main())
