#!/usr/bin/env python3
"""tools/crosscheck.py [--own] <ID>-<k> [...]

For kept seeded changes that the check of their own property does not report: run the quick
checks of the OTHER properties whose anchored files the patch touches (properties.jsonl,
anchors.files; same directory counts) against a scratch copy with the patch applied, and add
the verdicts to seeded/<ID>-<k>/meta.json (our_checks).  The scratch copy is removed."""
import json, os, re, shutil, subprocess, sys, tempfile

VERIF = os.path.dirname(os.path.dirname(os.path.abspath(__file__)))
ENV = dict(os.environ, GOFLAGS="-mod=mod", GOPROXY="off", GOSUMDB="off", GOTOOLCHAIN="local")
PROPS = [json.loads(l) for l in open(os.path.join(VERIF, "properties.jsonl"))]


def sh(cmd, cwd, env=None, timeout=3600):
    p = subprocess.run(cmd, cwd=cwd, shell=True, env=env or ENV, stdout=subprocess.PIPE, stderr=subprocess.STDOUT, text=True, timeout=timeout)
    return p.returncode, p.stdout


def candidates(files, own):
    out = []
    for p in PROPS:
        if p["id"] == own:
            continue
        af = p["anchors"]["files"]
        hit = any(f in af for f in files)
        near = any(os.path.dirname(f) == os.path.dirname(a) for f in files for a in af)
        if hit:
            out.append((0, p["id"]))
        elif near:
            out.append((1, p["id"]))
    out.sort()
    return [x[1] for x in out]


def main():
    own_mode = "--own" in sys.argv      # re-run the check of the change's own property (after strengthening it)
    for name in [a for a in sys.argv[1:] if not a.startswith("--")]:
        d = os.path.join(VERIF, "seeded", name)
        meta = json.load(open(os.path.join(d, "meta.json")))
        own = name.split("-")[0]
        patch = open(os.path.join(d, "patch.diff")).read()
        files = sorted(set(re.findall(r"^\+\+\+ b/(\S+)", patch, re.M)))
        cands = [c for c in candidates(files, own) if c not in meta.get("our_checks", {})][:4]
        if own_mode:
            cands = [own]
        print("=== %s touches %s -> %s" % (name, files, cands), flush=True)
        if not cands:
            continue
        D = tempfile.mkdtemp(prefix="crossv.", dir="/tmp")
        try:
            sh("cp -r /repo/. %s/" % D, "/")
            rc, out = sh("git apply %s || (git update-index --refresh >/dev/null; git apply -3 %s)" % (os.path.join(d, "patch.diff"), os.path.join(d, "patch.diff")), D)
            if rc != 0:
                print("patch does not apply", out[:300])
                continue
            for c in cands:
                env = dict(os.environ, VERIF_REPO=D)
                rc, out = sh("./check %s 2>&1 | grep -v '^Semantic\\|^Parsing' | tail -400" % c, VERIF, env=env)
                sigs = sorted(set(re.findall(r'"signature": "([^"]+)"', out)))
                verdict = "VIOLATION" if "VIOLATION property=" in out else ("INFRA" if "INFRA" in out else ("ok" if " ok:" in out else "?"))
                meta.setdefault("our_checks", {})[c] = {"verdict": verdict, "signatures": sigs[:12]}
                print("  check %s on patched tree: %s %s" % (c, verdict, sigs[:4]), flush=True)
                json.dump(meta, open(os.path.join(d, "meta.json"), "w"), indent=1)
                if verdict == "VIOLATION":
                    break
        finally:
            shutil.rmtree(D, ignore_errors=True)


if __name__ == "__main__":
    main()
