#!/usr/bin/env python3
"""Regenerate /verif/MANIFEST.json from the property plans in props/ (attributes
LEVEL, TEXT, NOTE, TECHNIQUE, DESIGN_REF) and the NOT_APPLICABLE table below."""
import importlib, json, os, sys
HERE = os.path.dirname(os.path.dirname(os.path.abspath(__file__)))
sys.path.insert(0, os.path.join(HERE, "lib")); sys.path.insert(0, os.path.join(HERE, "props"))

NOT_APPLICABLE = {
}
PENDING = "check not built yet in this round (planned, see DESIGN.md section 4); not claimed until it exists"

ids = [json.loads(l)["id"] for l in open(os.path.join(HERE, "properties.jsonl"))]
# only checks the coordinator has reviewed and run on the unchanged tree are registered
READY = set(open(os.path.join(HERE, "ready.txt")).read().split())
checks, na = [], []
for pid in ids:
    if pid in READY and os.path.exists(os.path.join(HERE, "props", pid + ".py")) and pid not in NOT_APPLICABLE:
        m = importlib.import_module(pid)
        c = {
            "property_id": pid,
            "quick_cmd": "./check %s --tier quick" % pid,
            "thorough_cmd": "./check %s --tier thorough" % pid,
            "evidence_file": "/verif/evidence/%s.json" % pid,
            "replay_cmd_template": "./check %s --replay {path}" % pid,
            "engine": "tlc+vh",
            "level_claimed": {"category": m.LEVEL, "text": m.TEXT, "design_ref": m.DESIGN_REF},
            "level_note": m.NOTE,
            "technique": m.TECHNIQUE,
        }
        checks.append(c)
    else:
        na.append({"property_id": pid, "reason": NOT_APPLICABLE.get(pid, PENDING)})
hooks_commits = []
hp = os.path.join(HERE, "hooks_commits.txt")
if os.path.exists(hp):
    hooks_commits = [l.split()[0] for l in open(hp) if l.strip()]
man = {
    "version": 1,
    "setup_cmd": "./check --setup",
    "hooks": {
        "guard": "verif",
        "enable": "go build -tags verif (the harness is compiled into /repo's module with -overlay, see lib/vlib.py)",
        "baseline_off_cmd": "cd /repo && GOFLAGS=-mod=mod GOPROXY=off GOSUMDB=off go test -vet=off -count=1 ./...",
        "source_commits": hooks_commits,
        "add_only": True,
    },
    "engines": [
        {"name": "tlc+vh", "path": "/verif/check",
         "serves_properties": [c["property_id"] for c in checks],
         "kind_free_text": "python driver: TLC (exhaustive / generation / trace validation) on /verif/spec + Go harness /verif/harness built inside /repo by overlay"},
    ],
    "checks": checks,
    "not_applicable": na,
    "notes": "Model-based verification with explicit TLA+ specifications; see DESIGN.md. Exit 2 of a check = infrastructure trouble, never a verdict.",
}
json.dump(man, open(os.path.join(HERE, "MANIFEST.json"), "w"), indent=1)
print("MANIFEST: %d checks, %d not_applicable" % (len(checks), len(na)))
