#!/bin/bash
# usage: tools/mutant.sh <ID> <file-relative-to-repo> <python-expr old> <new>   (literal string replace, first occurrence)
# Applies a literal replacement to a scratch copy of /repo, runs the quick check against it, removes the copy.
set -u
ID=$1; FILE=$2; OLD=$3; NEW=$4
D=$(mktemp -d /tmp/mut.XXXXXX)
cp -r /repo/. $D/
python3 - "$D/$FILE" "$OLD" "$NEW" <<'PY'
import sys
p,old,new=sys.argv[1:4]
s=open(p).read()
if old not in s:
    print("MUTANT: pattern not found"); sys.exit(3)
open(p,'w').write(s.replace(old,new,1))
PY
rc=$?
if [ $rc -ne 0 ]; then rm -rf $D; exit 3; fi
(cd $D && export GOFLAGS=-mod=mod GOPROXY=off GOSUMDB=off GOTOOLCHAIN=local && go build ./... 2>&1 | head -5)
VERIF_REPO=$D /verif/check $ID 2>&1 | grep -v "^Semantic\|^Parsing" | grep "VIOLATION\|KNOWN\|INFRA\|ok:" | head -5
rm -rf $D
