#!/bin/bash
# Processes finished seeded changes under /tmp/seed3-C??/out/<k> (idempotent; several
# instances may run side by side: an item is claimed by mkdir).  Log on stdout.
cd /verif
mkdir -p /tmp/seedlock
for d in /tmp/seed6-C*/out/16; do
  [ -f $d/patch.diff ] && [ -f $d/meta.json ] || continue
  id=$(echo $d | sed 's|/tmp/seed6-\(C[0-9]*\)/out/\([0-9]*\)|\1|'); k=$(basename $d)
  [ -f /verif/seeded/$id-$k/meta.json ] && continue
  mkdir /tmp/seedlock/$id-$k 2>/dev/null || continue
  echo "=== $id-$k"
  python3 tools/seedverify.py $d $id $k 2>&1 | grep "^check\|KEPT\|cannot\|not green\|does not\|NOT KEPT"
done
