#!/bin/bash
# usage: tools/seedrun.sh <ID>-<k> [check-id] [extra check args]
# Applies seeded/<ID>-<k>/patch.diff to a scratch copy of /repo, runs a check against it, removes the copy.
set -u
S=$1; ID=${2:-${S%%-*}}; shift; shift 2>/dev/null
D=$(mktemp -d /tmp/srun.XXXXXX)
cp -r /repo/. $D/
(cd $D && (git apply /verif/seeded/$S/patch.diff || (git update-index --refresh >/dev/null; git apply -3 /verif/seeded/$S/patch.diff))) || { echo "patch does not apply"; rm -rf $D; exit 3; }
VERIF_REPO=$D VERIF_DEBUG=${VERIF_DEBUG:-3} /verif/check $ID "$@" 2>&1 | grep -v "^Semantic\|^Parsing" | grep "VIOLATION\|KNOWN\|INFRA\|ok:\|deviation\|signature" | cut -c1-${CUT:-300} | head -${HEAD:-8}
rm -rf $D
