#!/usr/bin/env python3
"""Print a markdown table of the seeded changes under /verif/seeded (from their meta.json)."""
import glob, json, os
HERE = os.path.dirname(os.path.dirname(os.path.abspath(__file__)))
rows = []
for d in sorted(glob.glob(os.path.join(HERE, "seeded", "C*-*"))):
    mp = os.path.join(d, "meta.json")
    if not os.path.exists(mp):
        continue
    m = json.load(open(mp))
    oc = m.get("our_checks", {})
    caught = ", ".join("%s: %s%s" % (c, v["verdict"], (" (" + ", ".join(v["signatures"][:2]) + ")") if v.get("signatures") else "") for c, v in oc.items())
    rows.append((os.path.basename(d), str(m.get("breaks", ""))[:110].replace("|", "/").replace("\n", " "),
                 str(m.get("needs", ""))[:150].replace("|", "/").replace("\n", " "), caught))
print("| seeded change | clause broken | needs, to manifest | our checks on the patched tree |")
print("|---|---|---|---|")
for r in rows:
    print("| %s | %s | %s | %s |" % r)
