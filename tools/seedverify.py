#!/usr/bin/env python3
"""tools/seedverify.py <seed-out-dir> <ID> <k> [--checks C01,C02]

Confirms an independently produced breaking change and runs our checks against it,
in a scratch copy of /repo (never in /repo itself, other work is running against it):
  1. patch applies at HEAD, tree builds, the repository's own suite passes with it
  2. the demonstration fails with the patch and passes without it
  3. ./check <ID> (quick) against the patched copy: exit code / signatures
Keeps the change as /verif/seeded/<ID>-<k>/ (patch.diff, demonstration, meta.json)
only if 1 and 2 hold.  The scratch copy is removed."""
import glob, json, os, re, shutil, subprocess, sys, tempfile

VERIF = os.path.dirname(os.path.dirname(os.path.abspath(__file__)))
ENV = dict(os.environ, GOFLAGS="-mod=mod", GOPROXY="off", GOSUMDB="off", GOTOOLCHAIN="local")


def sh(cmd, cwd, timeout=1800, env=None):
    p = subprocess.run(cmd, cwd=cwd, shell=True, env=env or ENV, stdout=subprocess.PIPE, stderr=subprocess.STDOUT, text=True, timeout=timeout)
    return p.returncode, p.stdout


def main():
    src, pid, k = sys.argv[1], sys.argv[2], sys.argv[3]
    checks = [pid]
    if "--checks" in sys.argv:
        checks = sys.argv[sys.argv.index("--checks") + 1].split(",")
    if glob.glob(os.path.join(src, "*.go.txt")) and os.path.exists(os.path.join(src, "meta.json")):
        # re-verification of a kept change: rebuild the agent's layout in a scratch directory
        m = json.load(open(os.path.join(src, "meta.json")))
        tmp = tempfile.mkdtemp(prefix="seedsrc.", dir="/tmp")
        shutil.copy(os.path.join(src, "patch.diff"), tmp)
        for f, d in m.get("demonstration", {}).items():
            os.makedirs(os.path.dirname(os.path.join(tmp, d)), exist_ok=True)
            shutil.copy(os.path.join(src, f), os.path.join(tmp, d))
        keep = {k: v for k, v in m.items() if k not in ("demonstration", "confirmed_by_coordinator", "coordinator_ran", "our_checks")}
        json.dump(keep, open(os.path.join(tmp, "meta.json"), "w"))
        src = tmp
    demo_txt = open(os.path.join(src, "demo.txt")).read() if os.path.exists(os.path.join(src, "demo.txt")) else ""
    demos = []
    for root, _, fs in os.walk(src):
        for f in fs:
            if f.endswith(".go"):
                demos.append(os.path.relpath(os.path.join(root, f), src))
    dest = {}
    for f in demos:
        if os.path.dirname(f):
            # saved under the package directory it belongs to
            dest[f] = f
            continue
        m = re.search(re.escape(f) + r"\s*(?:->\s*copy\s+to|->|to|into|as)\s+(\S+?\.go)", demo_txt)
        if m:
            dest[f] = m.group(1)
        else:
            m = re.search(r"(\S+/)" + re.escape(f), demo_txt)
            m2 = re.search(re.escape(f) + r"\s*(?:goes|belongs|is placed|lives)?\s*(?:in|into|under)\s+`?(\S+?/)`?[\s(,.]", demo_txt)
            m3 = re.search(r"(?:in|into|under|to)\s+`?((?:[\w.-]+/)+)`?\s", demo_txt)
            if m and not m.group(1).startswith("/"):
                dest[f] = m.group(1) + f
            elif m2:
                dest[f] = m2.group(1) + f
            elif m3 and len(demos) == 1:
                dest[f] = m3.group(1) + f
    missing = [f for f in demos if f not in dest]
    if missing:
        print("cannot tell where to put", missing, "- demo.txt:", demo_txt[:300])
        return 2
    pkgs = sorted({"./" + os.path.dirname(d) for d in dest.values()})
    run_re = "Seed%s_%s" % (pid, k)
    D = tempfile.mkdtemp(prefix="seedv.", dir="/tmp")
    res = {"patch_applies": False, "suite_green_with_patch": False, "demo_fails_with_patch": False, "demo_passes_without": False, "checks": {}}
    try:
        sh("cp -r /repo/. %s/" % D, "/")
        rc, out = sh("git apply %s" % os.path.join(src, "patch.diff"), D)
        if rc != 0:
            # /repo has moved on since the change was written (fix: commits): three-way
            rc, out = sh("git update-index --refresh >/dev/null; git apply -3 %s && git reset -q" % os.path.join(src, "patch.diff"), D)
        res["patch_applies"] = rc == 0
        if rc != 0:
            print("patch does not apply:", out[:500]); return finish(res, src, pid, k, dest, False)
        rc, out = sh("go build ./... && go test -vet=off -count=1 ./... 2>&1 | grep -v 'no test files' | grep -v '^ok' | head -20", D)
        res["suite_green_with_patch"] = (out.strip() == "")
        if out.strip():
            print("suite not green with patch:\n" + out[:800])
        # our checks against the patched tree (before the demonstrations are added)
        for c in checks:
            env = dict(os.environ, VERIF_REPO=D)
            rc, out = sh("./check %s 2>&1 | grep -v '^Semantic\\|^Parsing' | tail -400" % c, VERIF, timeout=3600, env=env)
            sigs = sorted(set(re.findall(r'"signature": "([^"]+)"', out)))
            verdict = "VIOLATION" if "VIOLATION property=" in out else ("INFRA" if "INFRA" in out else ("ok" if " ok:" in out else "?"))
            res["checks"][c] = {"verdict": verdict, "signatures": sigs[:12]}
            print("check %s on patched tree: %s %s" % (c, verdict, sigs[:6]))
        for f, d in dest.items():
            shutil.copy(os.path.join(src, f), os.path.join(D, d))
        rc, out = sh("go test -vet=off -count=1 -run '%s' %s" % (run_re, " ".join(pkgs)), D)
        res["demo_fails_with_patch"] = rc != 0 and ("FAIL" in out)
        rc, out2 = sh("(git apply -R %s || git checkout -q -- $(git diff --name-only)) && go test -vet=off -count=1 -run '%s' %s" % (os.path.join(src, "patch.diff"), run_re, " ".join(pkgs)), D)
        res["demo_passes_without"] = rc == 0
        if rc != 0:
            print("demo does not pass on HEAD:\n" + out2[-600:])
        okk = all(res[x] for x in ("patch_applies", "suite_green_with_patch", "demo_fails_with_patch", "demo_passes_without"))
        return finish(res, src, pid, k, dest, okk)
    finally:
        shutil.rmtree(D, ignore_errors=True)


def finish(res, src, pid, k, dest, keep):
    print(json.dumps(res))
    if not keep:
        print("NOT KEPT: confirmation failed")
        return 1
    out = os.path.join(VERIF, "seeded", "%s-%s" % (pid, k))
    os.makedirs(out, exist_ok=True)
    shutil.copy(os.path.join(src, "patch.diff"), out)
    for f in dest:
        shutil.copy(os.path.join(src, f), os.path.join(out, f.replace("/", "__") + ".txt"))   # .txt: not a Go source of this repo
    meta = {}
    mp = os.path.join(src, "meta.json")
    if os.path.exists(mp):
        try:
            meta = json.load(open(mp))
        except Exception:
            meta = {"raw": open(mp).read()}
    meta["demonstration"] = {f.replace("/", "__") + ".txt": d for f, d in dest.items()}
    meta["confirmed_by_coordinator"] = {x: res[x] for x in ("patch_applies", "suite_green_with_patch", "demo_fails_with_patch", "demo_passes_without")}
    meta["coordinator_ran"] = ["cp -r /repo <scratch>; git apply patch.diff; go build ./... && go test -vet=off -count=1 ./...",
                               "go test -run Seed%s_%s <pkgs> with and without the patch" % (pid, k),
                               "VERIF_REPO=<scratch> ./check <ID> (quick)"]
    meta["our_checks"] = res["checks"]
    json.dump(meta, open(os.path.join(out, "meta.json"), "w"), indent=1)
    print("KEPT", out)
    return 0


if __name__ == "__main__":
    sys.exit(main())
