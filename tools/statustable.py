#!/usr/bin/env python3
"""Print the per-property status table of DESIGN.md section 0a from evidence/*.json and props/*.py."""
import importlib, json, os, sys
HERE = os.path.dirname(os.path.dirname(os.path.abspath(__file__)))
sys.path.insert(0, os.path.join(HERE, "lib")); sys.path.insert(0, os.path.join(HERE, "props"))
FAM = {"C01": "FmtStream (+_gen, _trace)", "C02": "FmtReader (+_gen, dup mode), FmtLine (+_gen), FmtSoup_trace", "C03": "NumLit (+_gen, _genfile)",
       "C04": "Units (+_gen, _trace)", "C05": "Names (+_gen, _chunks)", "C06": "FilterSem (+_gen, _trace)", "C07": "Lexer (+_gen; character, token and semantic-term exploration)",
       "C08": "Projection (+_gen; quick, grow, sim, sim2)", "C09": "Projection (+_gen; quick, grow, sim, sim2)", "C10": "Scale (+_gen)", "C11": "UTest (+_gen, deal census)",
       "C12": "Stats (+_gen)", "C13": "Summaries (+_gen)", "C14": "Benchstat (+_gen)", "C15": "TablesPar (+_gen, _trace), TablesParDyn (+_trace), TablesParObs_trace, TablesPar_refines",
       "C16": "TextTab, KeyHeader (+_gen, _trace)", "C17": "Legacy (+_gen)", "C18": "Series, SeriesDates (+_gen)",
       "C19": "StoreQuery, Words (+_gen, _trace)", "C20": "Upload (+_gen, _idtrace incl. the repository's storage tests, _vis)"}
known = json.load(open(os.path.join(HERE, "known_findings.json")))["findings"]
print("| id | spec modules | level | TLC distinct / generated states | cases + traces bound to the code | quick wall | findings (fixed / known) |")
print("|---|---|---|---|---|---|---|")
for i in range(1, 21):
    pid = "C%02d" % i
    ev = json.load(open(os.path.join(HERE, "evidence", pid + ".json")))
    c = ev["coverage"]
    fx = [k for k in known if k["property"] == pid and k["status"] == "fixed"]
    kn = [k for k in known if k["property"] == pid and k["status"] == "known"]
    f = ", ".join("`%s`" % k["commit"] for k in fx) or "-"
    if kn:
        f += "; known: " + ", ".join(k["id"] for k in kn)
    print("| %s | %s | %s | %s / %s | %s | %ss | %s |" % (pid, FAM[pid], ev["level"], c.get("states"), c.get("transitions"),
          c.get("traces_validated_against_impl"), int(ev["wall_s"]), f))
